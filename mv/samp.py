"""Sampler-level harness shared by C13-C16: picklable models, logging proxy transitions, run driver.

Everything handed to mici is picklable with the standard pickle module (the installed
multiprocessing backend), so the same configuration can run with any ``n_process``.
Observation points are the public boundaries: transitions (proxied), user model functions,
trace functions and adapters (subclassed).  A module-global CTX carries, inside one process,
which chain / iteration is currently being advanced; it is set by the proxies.
"""

from __future__ import annotations

import os
import pickle
import tempfile
import time
from collections import Counter
from pathlib import Path

import numpy as np

CTX = {"tag": None, "iter": -1, "phase": None, "calls": Counter()}


class InjectedInterrupt(KeyboardInterrupt):
    pass


class Plan:
    """Fault / delay plan evaluated inside model and trace functions (picklable)."""

    def __init__(self, delays=None, interrupt=None) -> None:
        self.delays = delays or {}  # {(tag, iter): seconds}
        self.interrupt = interrupt  # {"fn": name, "tag": t, "call": k}  k-th in-iteration call of fn for chain t
        self.count_path = None  # directory to dump per-process call counts (reference run)

    def on_call(self, fn: str) -> None:
        tag, phase = CTX["tag"], CTX["phase"]
        if tag is None or phase is None or (phase == "post" and fn != "trace"):
            return
        idx = CTX["calls"][fn]
        CTX["calls"][fn] += 1
        if self.count_path is not None:
            with open(Path(self.count_path) / f"calls-{os.getpid()}.txt", "a") as f:
                f.write(f"{tag} {CTX['iter']} {fn} {idx}\n")
        if self.delays and fn == "grad" and idx == 0:
            d = self.delays.get((tag, CTX["iter"]))
            if d:
                time.sleep(d)
        it = self.interrupt
        if it is not None and it["fn"] == fn and (it["tag"] == tag or it.get("all_chains")) and it["iter"] == CTX["iter"] and it["call"] == idx:
            if it.get("signal") == "parent":
                import signal

                os.kill(os.getppid(), signal.SIGINT)  # only the process driving the pool is interrupted
                time.sleep(0.3)
            elif it.get("signal"):
                import signal

                os.killpg(os.getpgid(0), signal.SIGINT)
                time.sleep(0.5)  # the default KeyboardInterrupt is raised while we wait
            else:
                CTX["interrupt_t"] = time.monotonic_ns()
                raise InjectedInterrupt(f"injected at {fn} call {idx} of chain {tag} iteration {CTX['iter']}")


class PTarget:
    """Picklable anharmonic target f(q) = 1/2 q'Aq + sum c_i q_i^4 / 4."""

    def __init__(self, dim: int, seed: int, plan: Plan | None = None, grad_returns_value: bool = False) -> None:
        rng = np.random.default_rng([seed, 77])
        q, _ = np.linalg.qr(rng.standard_normal((dim, dim)))
        self.A = (q * rng.uniform(0.5, 2.0, dim)) @ q.T
        self.c = rng.uniform(0.05, 0.3, dim)
        self.plan = plan or Plan()
        self.grad_returns_value = grad_returns_value

    def neg_log_dens(self, q):
        self.plan.on_call("dens")
        return 0.5 * q @ self.A @ q + np.sum(self.c * q**4) / 4

    def grad(self, q):
        self.plan.on_call("grad")
        g = self.A @ q + self.c * q**3
        if self.grad_returns_value:
            return g, 0.5 * q @ self.A @ q + np.sum(self.c * q**4) / 4
        return g


class TraceFn:
    """Picklable trace function; kind selects the traced quantities."""

    def __init__(self, kind: str, plan: Plan | None = None, system=None) -> None:
        self.kind, self.plan, self.system = kind, plan or Plan(), system

    def __call__(self, state):
        self.plan.on_call("trace")
        if self.kind == "pos":
            return {"pos": state.pos}
        if self.kind == "scalars":
            return {"sum_pos": float(np.sum(state.pos)), "dir_int": int(state.dir), "first": state.pos[0]}
        if self.kind == "energy":
            return {"hamiltonian": self.system.h(state), "mom": state.mom}
        if self.kind == "int_vec":
            return {"sign_pos": np.sign(state.pos).astype(np.int64)}
        if self.kind == "odd_keys":  # keys that differ only in characters that are not valid in file names
            return {"x[0]": state.pos[0], "x0": 2.0 * state.pos[0], "a/b": -state.pos[0], "ab": 3.0 * state.pos[0]}
        if self.kind == "pos_twice":  # same key as the "pos" trace function: the last function listed must win
            return {"pos": 2.0 * state.pos, "extra": float(state.pos[0])}
        raise ValueError(self.kind)

    def apply_logged(self, rec):
        """Same quantities from a logged post-iteration record (independent of the cache)."""
        pos, mom = rec["pos"], rec["mom"]
        if self.kind == "pos":
            return {"pos": pos}
        if self.kind == "scalars":
            return {"sum_pos": float(np.sum(pos)), "dir_int": int(rec["dir"]), "first": pos[0]}
        if self.kind == "energy":
            return {"hamiltonian": rec["h"], "mom": mom}
        if self.kind == "default":  # what HamiltonianMonteCarlo traces when no trace_funcs argument is given
            return {"pos": pos, "hamiltonian": rec["h"]}
        if self.kind == "odd_keys":
            return {"x[0]": pos[0], "x0": 2.0 * pos[0], "a/b": -pos[0], "ab": 3.0 * pos[0]}
        if self.kind == "pos_twice":
            return {"pos": 2.0 * pos, "extra": float(pos[0])}
        return {"sign_pos": np.sign(pos).astype(np.int64)}


def _iter_file(logdir: str, tag: int) -> Path:
    return Path(logdir) / f"iters-{tag}.txt"


def _read_iter(logdir: str, tag: int) -> int:
    try:
        return int(_iter_file(logdir, tag).read_text())
    except (OSError, ValueError):
        return 0


def _append(logdir: str, rec: dict) -> None:
    with open(Path(logdir) / f"log-{os.getpid()}.pkl", "ab") as f:
        pickle.dump(rec, f)


def read_logs(logdir: str) -> list[dict]:
    recs = []
    for p in sorted(Path(logdir).glob("log-*.pkl")):
        with open(p, "rb") as f:
            while True:
                try:
                    recs.append(pickle.load(f))  # noqa: S301
                except EOFError:
                    break
    recs.sort(key=lambda r: r["t"])
    return recs


from mv import common as _common

_common.setup_paths()
from mici.transitions import Transition  # noqa: E402


class _Proxy(Transition):
    """Picklable proxy around a real transition (module level so that workers can unpickle it)."""

    def __init__(self, inner, logdir: str) -> None:
        self.inner, self.logdir = inner, logdir

    @property
    def state_variables(self):
        return self.inner.state_variables

    @property
    def statistic_types(self):
        return self.inner.statistic_types

    @property
    def integrator(self):
        return self.inner.integrator

    @property
    def system(self):
        return self.inner.system

    def __getattr__(self, name):
        if name in ("inner", "logdir") or name.startswith("__"):
            raise AttributeError(name)
        return getattr(self.inner, name)

    def sample(self, state, rng):
        return self.inner.sample(state, rng)


class StartMark(_Proxy):
    """First transition of an iteration: marks the iteration start for this chain."""

    def sample(self, state, rng):
        tag = int(getattr(state, "tag", -1))
        it = _read_iter(self.logdir, tag)
        CTX.update(tag=tag, iter=it, phase="iter")
        CTX["calls"].clear()
        rec = {"kind": "start", "tag": tag, "iter": it, "pid": os.getpid(), "t": time.monotonic_ns(), "rng": _rng_state(rng)}
        _append(self.logdir, rec)
        return self.inner.sample(state, rng)


class EndLog(_Proxy):
    """Last transition of an iteration: logs the post-iteration state and statistics."""

    def sample(self, state, rng):
        tag = int(getattr(state, "tag", -1))
        if CTX["tag"] != tag or CTX["phase"] != "iter":  # used without a StartMark proxy
            CTX.update(tag=tag, iter=_read_iter(self.logdir, tag), phase="iter")
            CTX["calls"].clear()
        it = CTX["iter"]
        new_state, stats = self.inner.sample(state, rng)
        sysm = self.inner.system
        CTX["phase"] = None  # the log record below must not count as in-iteration model calls
        rec = {"kind": "end", "tag": tag, "iter": it, "pid": os.getpid(), "t": time.monotonic_ns(),
               "pos": np.array(new_state.pos), "mom": np.array(new_state.mom), "dir": int(new_state.dir),
               "stats": None if stats is None else dict(stats), "h": float(sysm.h(new_state.copy())),
               "step_size": self.inner.integrator.step_size, "metric_id": id(getattr(sysm, "metric", None)),
               "metric_diag": _metric_diag(sysm), "rng_after": _rng_state(rng)}
        _append(self.logdir, rec)
        _iter_file(self.logdir, tag).write_text(str(it + 1))
        CTX["phase"] = "post"
        return new_state, stats


class MidLog(_Proxy):
    """A second statistics-bearing transition between the momentum and the final transition: logs its statistics."""

    def sample(self, state, rng):
        tag = int(getattr(state, "tag", -1))
        it = CTX["iter"] if CTX["tag"] == tag else -1
        new_state, stats = self.inner.sample(state, rng)
        phase = CTX["phase"]
        CTX["phase"] = None
        _append(self.logdir, {"kind": "mid", "tag": tag, "iter": it, "pid": os.getpid(), "t": time.monotonic_ns(),
                              "stats": None if stats is None else dict(stats)})
        CTX["phase"] = phase
        return new_state, stats


def proxies():
    return StartMark, EndLog


def files_holding(udir: str, arr, cache: dict | None = None) -> list[str]:
    """Names of the .npy files in udir whose content equals arr (file NAMES are not part of any documented contract)."""
    cache = {} if cache is None else cache
    if "files" not in cache:
        cache["files"] = {f.name: np.load(f, allow_pickle=False) for f in sorted(Path(udir).glob("*.npy"))}
    a = np.asarray(arr)
    return [n for n, b in cache["files"].items() if b.shape == a.shape and b.dtype == a.dtype and np.array_equal(b, a, equal_nan=b.dtype.kind == "f")]


def _rng_state(rng):
    try:
        return pickle.dumps(rng.bit_generator.state)
    except Exception:  # noqa: BLE001
        return None


def _metric_diag(sysm):
    m = getattr(sysm, "metric", None)
    try:
        d = np.asarray(m.diagonal, dtype=float)
        return d * np.ones(1) if d.ndim == 0 else d.copy()
    except Exception:  # noqa: BLE001
        return None


# -------------------------------------------------------------------------- run driver
def build(cfg: dict, logdir: str):
    """Build (sampler, init_states, kwargs) for sample_chains from a JSON-able configuration."""
    import mici

    dim = cfg.get("dim", 2)
    plan = Plan(delays={tuple(k): v for k, v in cfg.get("delays", [])}, interrupt=cfg.get("interrupt"))
    if cfg.get("count_calls"):
        plan.count_path = logdir
    target = PTarget(dim, cfg.get("model_seed", 0), plan, grad_returns_value=cfg.get("grad_returns_value", False))
    system = mici.systems.EuclideanMetricSystem(target.neg_log_dens, grad_neg_log_dens=target.grad)
    integ = mici.integrators.LeapfrogIntegrator(system, cfg.get("step_size", 0.3))
    rng = make_rng(cfg.get("rng", "pcg64"), cfg.get("seed", 0))
    tkind = cfg.get("transition", "static")
    kw = {}
    if tkind == "static":
        sampler = mici.samplers.StaticMetropolisHMC(system, integ, rng, n_step=cfg.get("n_step", 3))
    elif tkind == "random":
        sampler = mici.samplers.RandomMetropolisHMC(system, integ, rng, n_step_range=(1, 5))
    elif tkind == "multinomial":
        sampler = mici.samplers.DynamicMultinomialHMC(system, integ, rng, max_tree_depth=cfg.get("max_tree_depth", 3))
    elif tkind == "slice":
        sampler = mici.samplers.DynamicSliceHMC(system, integ, rng, max_tree_depth=cfg.get("max_tree_depth", 3))
    else:
        raise ValueError(tkind)
    start_cls, end_cls = proxies()
    tr = sampler.transitions
    tr["momentum_transition"] = start_cls(tr["momentum_transition"], logdir)
    tr["integration_transition"] = end_cls(tr["integration_transition"], logdir)
    if cfg.get("front_end", "hmc") == "mcmc" and cfg.get("extra_transition"):
        # two statistics-bearing transitions declaring the same statistic names
        extra = mici.transitions.MetropolisStaticIntegrationTransition(system, integ, n_step=1)
        tr = {"momentum_transition": tr["momentum_transition"], "extra_transition": MidLog(extra, logdir),
              "integration_transition": tr["integration_transition"]}
        sampler_obj = mici.samplers.MarkovChainMonteCarloMethod(rng, dict(tr))
    elif cfg.get("front_end", "hmc") == "mcmc":
        sampler_obj = mici.samplers.MarkovChainMonteCarloMethod(rng, dict(tr))
    else:
        sampler_obj = sampler
    n_chain = cfg.get("n_chain", 2)
    irng = np.random.default_rng([cfg.get("init_seed", 1), 5])
    inits = []
    init_kind = cfg.get("init", "state")
    for c in range(n_chain):
        pos = irng.standard_normal(dim) * 0.7 + np.array(cfg.get("init_shift", {}).get(str(c), 0.0))
        mom = irng.standard_normal(dim)
        if init_kind == "state":
            inits.append(mici.states.ChainState(pos=pos, mom=mom, dir=1, tag=c))
        elif init_kind == "state_nomom":
            inits.append(mici.states.ChainState(pos=pos, mom=None, dir=1, tag=c))
        elif init_kind == "dict":
            inits.append({"pos": pos, "mom": mom, "dir": 1, "tag": c})
        elif init_kind == "array":
            inits.append(pos)
        else:
            raise ValueError(init_kind)
    if cfg.get("trace") == "none":
        trace_funcs = []
        kw["trace_funcs"] = None  # documented: no traces; statistics are still recorded
    elif cfg.get("trace") == "default" and cfg.get("front_end", "hmc") == "hmc":
        trace_funcs = [TraceFn("default", plan, system)]  # oracle side only: the argument is omitted
    else:
        trace_funcs = [TraceFn(k, plan, system) for k in (cfg.get("trace", ["pos"]) if cfg.get("trace") != "default" else ["pos"])]
        kw["trace_funcs"] = trace_funcs
    adapters = []
    for a in cfg.get("adapters", []):
        if a == "step":
            adapters.append(mici.adapters.DualAveragingStepSizeAdapter())
        elif a == "var":
            adapters.append(mici.adapters.OnlineVarianceMetricAdapter())
        elif a == "cov":
            adapters.append(mici.adapters.OnlineCovarianceMetricAdapter())
    if cfg.get("front_end", "hmc") == "mcmc" and cfg.get("momentum_adapters"):
        # adapters on two transitions: the momentum transition's list is empty in some stages of a windowed stager
        mom_adapters = [mici.adapters.OnlineVarianceMetricAdapter() if a == "var" else mici.adapters.OnlineCovarianceMetricAdapter()
                        for a in cfg["momentum_adapters"]]
        kw["adapters"] = {"momentum_transition": mom_adapters, "integration_transition": adapters}
    elif cfg.get("front_end", "hmc") == "mcmc":
        kw["adapters"] = {"integration_transition": adapters} if adapters else None
    else:
        kw["adapters"] = adapters if adapters else None
    st = cfg.get("stager")
    if st == "warmup":
        kw["stager"] = mici.stagers.WarmUpStager()
    elif isinstance(st, list):
        kw["stager"] = mici.stagers.WindowedWarmUpStager(*st)
    elif st == "windowed":
        kw["stager"] = mici.stagers.WindowedWarmUpStager()
    kw["n_process"] = cfg.get("n_process", 1)
    kw["trace_warm_up"] = cfg.get("trace_warm_up", False)
    kw["display_progress"] = bool(cfg.get("display_progress", False))
    if cfg.get("force_memmap"):
        kw["force_memmap"] = True
    if cfg.get("memmap_dir"):
        kw["memmap_path"] = cfg["memmap_dir"]
    if "monitor_stats" in cfg:
        kw["monitor_stats"] = cfg["monitor_stats"]
    return sampler_obj, inits, kw, system, integ, trace_funcs


def make_rng(kind: str, seed: int):
    if kind == "pcg64":
        return np.random.default_rng(seed)
    if kind == "philox":
        return np.random.Generator(np.random.Philox(seed))
    if kind == "mt19937":
        return np.random.Generator(np.random.MT19937(seed))
    if kind == "sfc64":
        return np.random.Generator(np.random.SFC64(seed))
    if kind == "randomstate":
        return np.random.RandomState(seed)
    raise ValueError(kind)


def run(cfg: dict, workdir: str | None = None, post_build=None):
    """Run sample_chains for cfg. Returns dict(outputs, log records, stage list, exception)."""
    import warnings

    own = workdir is None
    workdir = workdir or tempfile.mkdtemp(prefix="mv-samp-")
    logdir = str(Path(workdir) / f"logs-{time.monotonic_ns()}")
    os.makedirs(logdir)
    CTX.update(tag=None, iter=-1, phase=None)
    CTX["calls"].clear()
    with warnings.catch_warnings():
        warnings.simplefilter("ignore", DeprecationWarning)
        sampler, inits, kw, system, integ, trace_funcs = build(cfg, logdir)
    if post_build is not None:
        post_build(sampler, system, integ, kw)
    exc = None
    out = None
    try:
        with warnings.catch_warnings():
            warnings.simplefilter("ignore")
            out = sampler.sample_chains(cfg.get("n_warm", 0), cfg.get("n_main", 5), inits, **kw)
    except BaseException as e:  # noqa: BLE001
        if isinstance(e, KeyboardInterrupt) and not isinstance(e, InjectedInterrupt) and not cfg.get("interrupt"):
            raise
        exc = e
    CTX["phase"] = None
    recs = read_logs(logdir)
    res = {"out": out, "recs": recs, "exc": exc, "system": system, "integrator": integ, "trace_funcs": trace_funcs,
           "call_log": read_call_log(logdir), "sampler_transitions": sampler.transitions,
           "init_pos": {c: np.array(st.pos if hasattr(st, "pos") else (st["pos"] if isinstance(st, dict) else st)) for c, st in enumerate(inits)}, "kw": kw, "workdir": workdir, "own_workdir": own, "logdir": logdir}
    return res


def read_call_log(logdir: str) -> list[tuple]:
    out = []
    for p in sorted(Path(logdir).glob("calls-*.txt")):
        for line in p.read_text().splitlines():
            t, i, fn, idx = line.split()
            out.append((int(t), int(i), fn, int(idx)))
    return out


def stage_plan(cfg: dict, kw: dict):
    """Stage list the sampler will use (computed with the same public stager API)."""
    import mici

    adapters = kw.get("adapters")
    if isinstance(adapters, list):
        adapters = {"integration_transition": adapters}
    stager = kw.get("stager")
    if stager is None:
        if adapters is None or all(a.is_fast for al in adapters.values() for a in al):
            stager = mici.stagers.WarmUpStager()
        else:
            stager = mici.stagers.WindowedWarmUpStager()
    return stager.stages(cfg.get("n_warm", 0), cfg.get("n_main", 5), adapters, kw.get("trace_funcs", ("default-trace",)),
                         trace_warm_up=kw.get("trace_warm_up", False))


def cleanup(res) -> None:
    import shutil

    if res.get("own_workdir"):
        shutil.rmtree(res["workdir"], ignore_errors=True)
