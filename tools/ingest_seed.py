"""Confirm a sub-agent's seeded change and file it under /verif/seeded/.

    python3 tools/ingest_seed.py C07 A [--checks C07,C04]

Steps (all in a scratch worktree of /repo, removed afterwards): the patch applies; the demonstration exits 1 with
the patch and 0 without; the unedited test-suite passes with the patch; then the named checks (default: the
property's own check) are run against the patched copy through MV_REPO and the verdicts are recorded in meta.json.
"""
import json
import os
import shutil
import subprocess
import sys
import tempfile
from pathlib import Path

VERIF = Path("/verif")


def sh(cmd, **kw):
    return subprocess.run(cmd, capture_output=True, text=True, **kw)


def main():
    pid, variant = sys.argv[1], sys.argv[2]
    checks = [pid]
    if "--checks" in sys.argv:
        checks = sys.argv[sys.argv.index("--checks") + 1].split(",")
    skip_suite = "--skip-suite" in sys.argv
    root = os.environ.get("SEED_ROOT", "/tmp/seed-")
    suffix = os.environ.get("SEED_SUFFIX", "")
    src = Path(f"{root}{pid}/_seed/{variant}")
    if not (src / "patch.diff").exists():
        print("no patch at", src)
        return 2
    wt = tempfile.mkdtemp(prefix="mving-")
    os.rmdir(wt)
    sh(["git", "-C", "/repo", "worktree", "add", "-q", "--detach", wt, "HEAD"], check=True)
    meta = {"property": pid, "variant": variant, "source": "independent sub-agent given only the property text and a scratch worktree"}
    try:
        env = dict(os.environ, PYTHONPATH=f"{wt}/src", MICI_VERIF="")
        r = sh(["/venv/bin/python", str(src / "demo.py")], cwd=wt, env=env, timeout=900)
        meta["demo_clean_rc"] = r.returncode
        a = sh(["git", "apply", str(src / "patch.diff")], cwd=wt)
        if a.returncode != 0:
            print("patch does not apply:", a.stderr[:500])
            return 2
        files = sh(["git", "diff", "--name-only"], cwd=wt).stdout.split()
        meta["files_changed"] = files
        if any(not f.startswith("src/mici/") for f in files):
            print("patch touches files outside src/mici:", files)
            return 2
        r = sh(["/venv/bin/python", str(src / "demo.py")], cwd=wt, env=env, timeout=900)
        meta["demo_patched_rc"] = r.returncode
        meta["demo_patched_tail"] = (r.stdout + r.stderr)[-600:]
        if not skip_suite:
            t = sh(["/venv/bin/python", "-m", "pytest", "-q", "-p", "no:cacheprovider", "-n", "12", "--timeout=900", "tests"], cwd=wt, env=env, timeout=3000)
            tail = t.stdout.strip().splitlines()[-1] if t.stdout.strip() else t.stderr[-300:]
            meta["suite_with_patch"] = tail
            meta["suite_passes"] = t.returncode == 0
        ok = meta["demo_clean_rc"] == 0 and meta["demo_patched_rc"] == 1 and meta.get("suite_passes", skip_suite)
        meta["confirmed"] = bool(ok)
        print(json.dumps({k: meta[k] for k in ("demo_clean_rc", "demo_patched_rc", "suite_with_patch", "confirmed") if k in meta}))
        if not ok:
            return 1
        # run our checks against the patched copy
        verdicts = {}
        for c in checks:
            cenv = dict(os.environ, MV_REPO=wt)
            rr = sh([str(VERIF / "check"), c, "quick"], cwd=str(VERIF), env=cenv, timeout=3000)
            keys = sorted({ln.split("key=")[1].strip() for ln in rr.stdout.splitlines() if ln.startswith("VIOLATION") and "key=" in ln})
            verdicts[c] = {"rc": rr.returncode, "violation_keys": keys[:8]}
            print(c, "rc", rr.returncode, keys[:4])
        meta["checks_run"] = verdicts
        meta["caught_by"] = [c for c, v in verdicts.items() if v["rc"] == 1]
        dst = VERIF / "seeded" / f"{pid}-{suffix}{variant}"
        dst.mkdir(parents=True, exist_ok=True)
        for f in ("patch.diff", "demo.py", "notes.md"):
            if (src / f).exists():
                shutil.copy(src / f, dst / f)
        notes = (src / "notes.md").read_text() if (src / "notes.md").exists() else ""
        meta["needs_to_manifest"] = notes[:1500]
        meta["what_was_run"] = ("git apply patch.diff in a scratch worktree; demo.py with PYTHONPATH=<worktree>/src (exit 1 patched, 0 clean); "
                                "pytest -n 12 tests with the patch (all pass); ./check <id> quick with MV_REPO=<worktree>")
        (dst / "meta.json").write_text(json.dumps(meta, indent=1))
        return 0
    finally:
        sh(["git", "-C", "/repo", "worktree", "remove", "--force", wt])


if __name__ == "__main__":
    sys.exit(main())
