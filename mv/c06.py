"""C06 - a step of size eps approximates the exact flow over time eps to second order."""

from __future__ import annotations

import numpy as np

from mv import intgen, zoo

ID = "C06"
LEVEL = "exploration"
RULE = (
    "cases: (order) one (system, integrator) configuration -- all 10 system classes x compatible integrators incl. "
    "random symmetric compositions, both fixed-point solvers, three projection solvers, 1-4 inner steps -- and 5 random "
    "states; for eps, eps/2, eps/4 (eps = 0.15-0.4 of the local period scale) the one-step result is compared with a "
    "DOP853 (rtol 1e-12) solution of Hamilton's equations (index-reduced DAE when constrained) of the zoo's independent "
    "Hamiltonian; the median observed order of the local error must be >= 2.5 and of the one-step energy error >= 1.7, "
    "and the step must be closer to flow(eps) than to flow(2 eps) and flow(eps/2). (coeff) composition consistency read "
    "off constructed integrators with 0-7 random free coefficients. distinct_nontrivial = distinct (system class, "
    "metric/constraint kind, integrator kind, stages, solver, inner steps) with a measured order, plus coefficient sets."
)
ASSUMPTIONS = [
    "reference flow: scipy DOP853 at rtol 1e-12 on the independent dense Hamiltonian (finite-difference gradients where "
    "no analytic one exists, noise floor 1e-10: error samples below 1e-9 are not used)",
    "implicit / constrained integrators run with solver tolerances tightened through the public kwargs",
]
REQUIRED = {"orders_measured": 60, "coefficient_sets": 50, "orders_measured_after_metric_reassignment": 30}
BUDGET_S = {"quick": 200, "thorough": 1800}
NOISE = 1e-9


def shard_setup(obs) -> None:
    from mv import common

    common.setup_paths()


def gen_cases(tier: str, seed: int):
    n = {"quick": 250, "thorough": 8000}[tier]
    ncoef = {"quick": 150, "thorough": 10000}[tier]
    rng = np.random.default_rng([seed, 6])
    combos = [(k, ik) for k in zoo.SYSTEMS for ik in zoo.compatible_integrators(k)]
    for i in range(n):
        k, ik = combos[i % len(combos)]
        spec = zoo.random_sys_spec(rng, kinds=(k,), dim_range=(1, 4))
        ispec = intgen.random_int_spec(rng, k, tight=True, kinds=(ik,))
        yield {"kind": "order", "spec": spec, "ispec": ispec, "frac": float(rng.uniform(0.15, 0.4)),
               "seed": [seed, int(rng.integers(0, 2**31))]}
    for i in range(ncoef):
        nfree = i % 8
        yield {"kind": "coeff", "free": [float(x) for x in rng.uniform(-1.0, 1.5, nfree)], "h1_first": bool(i % 2),
               "seed": [seed, i]}


def run_coeff(case, obs) -> None:
    import mici

    m = zoo.Model({"sys": "euclidean", "dim": 2, "seed": 1, "metric": "diag"})
    sysm = m.system
    integ = mici.integrators.SymmetricCompositionIntegrator(sysm, tuple(case["free"]), step_size=0.1,
                                                            initial_h1_flow_step=case["h1_first"])
    obs.count("coefficient_sets")
    coefs, flows = list(integ.coefficients), list(integ.flows)
    names = [f.__name__ for f in flows]
    tag = f"free={case['free']} h1_first={case['h1_first']}"
    if len(coefs) != len(flows) or len(coefs) != 2 * len(case["free"]) + 3:
        obs.violation("composition:length", f"{len(coefs)} coefficients / {len(flows)} flows for {tag}")
        return
    s1 = sum(c for c, nm in zip(coefs, names) if nm == "h1_flow")
    s2 = sum(c for c, nm in zip(coefs, names) if nm == "h2_flow")
    obs.maxi("coeff.sum_error", max(abs(s1 - 1), abs(s2 - 1)))
    if abs(s1 - 1) > 1e-13 * (1 + sum(abs(c) for c in coefs)) or abs(s2 - 1) > 1e-13 * (1 + sum(abs(c) for c in coefs)):
        obs.violation("composition:weights-do-not-sum-to-one", f"h1 weights sum {s1!r}, h2 weights sum {s2!r} for {tag}")
    if coefs != coefs[::-1] or names != names[::-1]:
        obs.violation("composition:not-palindromic", f"coefficients/flows not palindromic for {tag}: {coefs} {names}")
    want_first = "h1_flow" if case["h1_first"] else "h2_flow"
    if names[0] != want_first or any(a == b for a, b in zip(names, names[1:])):
        obs.violation("composition:flow-order", f"flows {names} for {tag}")
    # the BCSS classes are instances of the same scheme
    for cls in (mici.integrators.BCSSTwoStageIntegrator, mici.integrators.BCSSThreeStageIntegrator,
                mici.integrators.BCSSFourStageIntegrator):
        b = cls(sysm, 0.1)
        bn = [f.__name__ for f in b.flows]
        t1 = sum(c for c, nm in zip(b.coefficients, bn) if nm == "h1_flow")
        t2 = sum(c for c, nm in zip(b.coefficients, bn) if nm == "h2_flow")
        if abs(t1 - 1) > 1e-13 or abs(t2 - 1) > 1e-13 or list(b.coefficients) != list(b.coefficients)[::-1]:
            obs.violation(f"composition:bcss:{cls.__name__}", f"{cls.__name__} coefficients {b.coefficients}")
    obs.token("coeff", len(case["free"]), case["h1_first"])


def run_case(case, obs) -> None:  # noqa: C901, PLR0912, PLR0915
    from mici.errors import IntegratorError

    if case["kind"] == "coeff":
        run_coeff(case, obs)
        return
    spec, ispec = case["spec"], dict(case["ispec"])
    rng = np.random.default_rng([abs(int(s)) for s in case["seed"]])
    m = zoo.Model(spec)
    iname_sys = type(m.system).__name__
    how = ["fresh", "pickle", "copy", "deepcopy"][int(case["seed"][-1]) % 4]

    reuse = int(case["seed"][-1]) % 2 == 0
    shared = []

    def measure(n_states, label, shrink=1.0):
        orders, eorders = [], []
        for _state in range(n_states):
            q, p = m.random_point(rng, scale=0.8)
            eps0 = shrink * case["frac"] / intgen.frequency(m, q)
            errs, eerrs = [], []

            def one_level(j):
                eps = eps0 / 2**j
                ispec["step_size"] = eps
                if reuse and shared:
                    # one integrator object whose step size is re-assigned between steps, as the step-size adapters do
                    integ = shared[0]
                    integ.step_size = eps
                else:
                    integ = zoo.make_integrator(m, ispec)
                    shared[:] = [integ]
                st = integ.step(m.used_state(q, p, 1, how))
                zq, zp = intgen.exact_flow(m, q, p, eps)
                scale = 1 + max(np.max(np.abs(zq)), np.max(np.abs(zp)))
                err = max(np.max(np.abs(st.pos - zq)), np.max(np.abs(st.mom - zp))) / scale
                errs.append(err)
                eerrs.append(abs(m.ref_h(st.pos, st.mom) - h0) / (1 + abs(h0)))
                if j == 0:
                    z2q, z2p = intgen.exact_flow(m, q, p, 2 * eps)
                    zhq, zhp = intgen.exact_flow(m, q, p, eps / 2)
                    e2 = max(np.max(np.abs(st.pos - z2q)), np.max(np.abs(st.mom - z2p))) / scale
                    eh = max(np.max(np.abs(st.pos - zhq)), np.max(np.abs(st.mom - zhp))) / scale
                    obs.count("closer_to_own_time_checks")
                    if not (err < e2 and err < eh):
                        obs.violation(f"wrong-time-advance:{type(integ).__name__}:{iname_sys}{label}",
                                      f"one step of size eps={eps:.4g} is at distance {err:.3e} from flow(eps) but {e2:.3e} from "
                                      f"flow(2 eps) and {eh:.3e} from flow(eps/2); sys={spec} int={ispec}")

            def rates(vals):
                return [float(np.log2(a / b)) for a, b in zip(vals, vals[1:]) if a > NOISE and b > NOISE]

            try:
                h0 = m.ref_h(q, p)
                for j in range(3):
                    one_level(j)
                # the property is about the limit eps -> 0: a state whose observed rate is still below 2 at these step sizes
                # (competing error terms of opposite sign near a turning point, where the leading term is tiny) is followed
                # for two more halvings and judged on its three finest levels
                if min(rates(errs) + rates(eerrs), default=3.0) < 2.0:
                    obs.count("states_followed_to_finer_steps")
                    for j in (3, 4):
                        one_level(j)
                    errs, eerrs = errs[2:], eerrs[2:]
            except IntegratorError as e:
                obs.count(f"skipped.{type(e).__name__}")
                continue
            except FloatingPointError:
                obs.inconc("reference-ode-failed")
                continue
            orders += rates(errs)
            eorders += rates(eerrs)
        return orders, eorders

    integ = zoo.make_integrator(m, {**ispec, "step_size": 0.1})
    iname = type(integ).__name__
    orders, eorders = measure(5, "")
    if len(orders) < 4:
        obs.inconc("too-few-error-samples-above-noise")
        return
    obs.count("orders_measured")
    order = float(np.median(orders))
    obs.maxi(f"neg_local_order.{iname}", -order, {"sys": spec["sys"], "int": ispec})
    obs.add_to_set("observed_local_orders", [iname, spec["sys"], round(order, 1)])
    if order < 2.5:
        obs.violation(f"local-error-order:{iname}:{iname_sys}",
                      f"median observed order of the one-step error is {order:.2f} (< 2.5, i.e. not O(eps^3)); samples {np.round(orders, 2).tolist()}; "
                      f"sys={spec} int={ispec}")
    if len(eorders) >= 4:
        eorder = float(np.median(eorders))
        obs.count("energy_orders_measured")
        obs.maxi(f"neg_energy_order.{iname}", -eorder)
        if eorder < 1.7:
            obs.violation(f"energy-error-order:{iname}:{iname_sys}",
                          f"median observed order of the one-step energy error is {eorder:.2f} (< 1.7); sys={spec} int={ispec}")
    # the metric of a live, already used system is reassigned by the metric adapters at the end of warm-up: steps must
    # then follow the flow of the *new* Hamiltonian
    if spec["sys"] in zoo.TRACTABLE and case.get("reassign", True):
        new_kind = str(rng.choice(["diag", "dense", "scaled", "chol_lower", "eig"]))
        new_arg, new_dense = zoo.const_metric(new_kind, m.dim, rng)
        m.system.metric = new_arg
        m.metric_dense = new_dense
        label = ":after-metric-reassignment"
        o2, e2 = measure(5, label, 0.5)  # finer steps: fewer states are pre-asymptotic, the estimate is less noisy
        if len(o2) >= 4:
            obs.count("orders_measured_after_metric_reassignment")
            order2 = float(np.median(o2))
            obs.maxi(f"neg_local_order_after_reassignment.{iname}", -order2, {"sys": spec["sys"], "int": ispec})
            if order2 < 2.5:
                obs.violation(f"local-error-order:{iname}:{iname_sys}{label}",
                              f"after system.metric was reassigned ({new_kind}) on a system that had already been stepped, the median "
                              f"observed order of the one-step error against the flow of the new Hamiltonian is {order2:.2f}; samples "
                              f"{np.round(o2, 2).tolist()}; sys={spec} int={ispec}")
            if len(e2) >= 4 and float(np.median(e2)) < 1.7:
                obs.violation(f"energy-error-order:{iname}:{iname_sys}{label}",
                              f"after system.metric was reassigned the median order of the one-step energy error is {float(np.median(e2)):.2f}; "
                              f"sys={spec} int={ispec}")
    obs.token(spec["sys"], spec.get("metric", spec.get("constr", spec.get("generic", "-"))), ispec["int"], intgen.stages(ispec),
              ispec.get("solver", "-"), ispec.get("n_inner_step", 0))
    obs.sample({"sys": spec["sys"], "int": ispec, "order": order, "samples": np.round(orders, 2).tolist()[:6]})
