"""Shared machinery: observation recorder, shard driver, evidence writer, findings.

Every property module ``mv/cXX.py`` exposes

    ID, LEVEL, RULE, ASSUMPTIONS              (strings / list)
    gen_cases(tier, seed) -> iterable of JSON-able case descriptors
    run_case(case, obs)                       (drives the real code, reports to obs)
    REQUIRED (optional) dict counter-name -> minimum count for a conclusive run
    finalize(merged, tier) (optional)         extra run-level verdicts on merged data

The driver (``mv.run``) shards the case list over worker *subprocesses* (isolation,
16 cores, per-shard watchdog), merges the observations, classifies violations with
``known_findings.json`` and writes ``evidence/<ID>.json``.
"""

from __future__ import annotations

import json
import os
import sys
import time
import traceback
from collections import Counter
from pathlib import Path

VERIF = Path(__file__).resolve().parent.parent
REPO = Path(os.environ.get("MV_REPO", "/repo")).resolve()


def setup_paths() -> None:
    """Make `import mici` resolve to the working tree under test."""
    src = str(REPO / "src")
    if src in sys.path:
        sys.path.remove(src)
    sys.path.insert(0, src)
    deps = str(VERIF / ".deps")
    if deps not in sys.path:
        sys.path.append(deps)  # last: never shadow the repo venv's own packages
    os.environ.setdefault("MICI_VERIF", "1")


def assert_mici_from_repo() -> str:
    import mici

    f = str(Path(mici.__file__).resolve())
    if not f.startswith(str(REPO / "src")):
        raise RuntimeError(f"mici imported from {f}, expected under {REPO}/src")
    return f


def jsonable(x, depth=0):
    """Best-effort conversion of numpy / nested data to JSON-able values."""
    import numpy as np

    if depth > 8:
        return repr(x)[:200]
    if isinstance(x, (str, bool, type(None))):
        return x
    if isinstance(x, (int, np.integer)):
        return int(x)
    if isinstance(x, (float, np.floating)):
        x = float(x)
        if x != x or x in (float("inf"), float("-inf")):
            return repr(x)
        return x
    if isinstance(x, np.ndarray):
        if x.size > 64:
            return {"shape": list(x.shape), "head": jsonable(x.ravel()[:8].tolist())}
        return jsonable(x.tolist(), depth + 1)
    if isinstance(x, dict):
        return {str(k): jsonable(v, depth + 1) for k, v in x.items()}
    if isinstance(x, (list, tuple, set, frozenset)):
        return [jsonable(v, depth + 1) for v in x]
    return repr(x)[:300]


class Obs:
    """Per-shard observation recorder (single-threaded by construction)."""

    MAX_SAMPLES = 6
    MAX_VIOLATIONS = 200

    def __init__(self) -> None:
        self.counters: Counter = Counter()
        self.distinct: set = set()
        self.samples: list = []
        self.violations: list = []
        self.inconclusive: Counter = Counter()
        self.worst: dict = {}
        self.sets: dict = {}
        self.case = None
        self.evaluations = 0

    # -- counting ---------------------------------------------------------------
    def count(self, name: str, n: int = 1) -> None:
        self.counters[name] += n

    def token(self, *tok) -> None:
        """Register a distinct non-trivial case token."""
        self.distinct.add(json.dumps(jsonable(tok), sort_keys=True))

    def sample(self, x) -> None:
        if len(self.samples) < self.MAX_SAMPLES:
            self.samples.append(jsonable(x))

    def maxi(self, name: str, value: float, info=None) -> None:
        value = float(value)
        if value != value:
            return
        cur = self.worst.get(name)
        if cur is None or value > cur["value"]:
            self.worst[name] = {"value": value, "info": jsonable(info)}

    def add_to_set(self, name: str, item) -> None:
        self.sets.setdefault(name, set()).add(json.dumps(jsonable(item), sort_keys=True))

    def inconc(self, reason: str, n: int = 1) -> None:
        self.inconclusive[reason] += n

    # -- verdicts ---------------------------------------------------------------
    def violation(self, key: str, msg: str, **detail) -> None:
        self.counters["violations_raw"] += 1
        if len(self.violations) < self.MAX_VIOLATIONS:
            self.violations.append(
                {"key": key, "msg": msg[:2000], "detail": jsonable(detail), "case": jsonable(self.case)},
            )

    def dump(self) -> dict:
        return {
            "counters": dict(self.counters),
            "distinct": sorted(self.distinct),
            "samples": self.samples,
            "violations": self.violations,
            "inconclusive": dict(self.inconclusive),
            "worst": self.worst,
            "sets": {k: sorted(v) for k, v in self.sets.items()},
            "evaluations": self.evaluations,
        }


def mici_site(exc: BaseException) -> str | None:
    """Innermost traceback frame located inside the mici source tree, if any."""
    site = None
    for fs in traceback.extract_tb(exc.__traceback__):
        fn = fs.filename.replace("\\", "/")
        if "/src/mici/" in fn:
            site = f"{Path(fn).name}:{fs.name}"
    return site


def exc_key(exc: BaseException) -> str:
    return f"{type(exc).__name__}@{mici_site(exc) or 'harness'}"


def run_shard(mod, cases: list, indices: list[int], out_path: str, deadline_s: float) -> None:
    """Run the given cases in this process and write the observations as JSON."""
    obs = Obs()
    t0 = time.time()
    setup = getattr(mod, "shard_setup", None)
    if setup is not None:
        setup(obs)
    for i in indices:
        if time.time() - t0 > deadline_s:
            obs.inconc("shard-time-budget-reached", len(indices) - indices.index(i))
            break
        case = cases[i]
        obs.case = case
        obs.evaluations += 1
        try:
            mod.run_case(case, obs)
        except KeyboardInterrupt:
            raise
        except BaseException as e:  # noqa: BLE001
            site = mici_site(e)
            tb = "".join(traceback.format_exception(type(e), e, e.__traceback__))[-3000:]
            if site is not None and not getattr(e, "_mv_harness", False):
                obs.violation(f"unexpected-exception:{type(e).__name__}@{site}", tb)
            else:
                obs.counters["harness_errors"] += 1
                obs.inconc(f"harness-error:{type(e).__name__}")
                if len(obs.samples) < 20:
                    obs.samples.append({"harness_error": tb[-1500:], "case": jsonable(case)})
    teardown = getattr(mod, "shard_teardown", None)
    if teardown is not None:
        teardown(obs)
    Path(out_path).write_text(json.dumps(obs.dump()))


def merge(dumps: list[dict]) -> dict:
    m = {
        "counters": Counter(),
        "distinct": set(),
        "samples": [],
        "violations": [],
        "inconclusive": Counter(),
        "worst": {},
        "sets": {},
        "evaluations": 0,
    }
    for d in dumps:
        m["counters"].update(d["counters"])
        m["distinct"].update(d["distinct"])
        m["samples"].extend(d["samples"])
        m["violations"].extend(d["violations"])
        m["inconclusive"].update(d["inconclusive"])
        m["evaluations"] += d["evaluations"]
        for k, v in d["worst"].items():
            if k not in m["worst"] or v["value"] > m["worst"][k]["value"]:
                m["worst"][k] = v
        for k, v in d["sets"].items():
            m["sets"].setdefault(k, set()).update(v)
    return m


def load_findings() -> dict:
    p = VERIF / "known_findings.json"
    if not p.exists():
        return {"open": [], "fixed": []}
    return json.loads(p.read_text())


def match_open(findings: dict, prop: str, key: str) -> dict | None:
    import fnmatch

    for f in findings.get("open", []):
        if f["property"] == prop and fnmatch.fnmatchcase(key, f["key"]):
            return f
    return None
