"""C17 - adapters compute the estimators they document for any history."""

from __future__ import annotations

import math
from fractions import Fraction
from types import SimpleNamespace

import numpy as np

from mv import zoo
from mv.c08 import ScriptedNormal

ID = "C17"
LEVEL = "exploration"
RULE = (
    "cases: (da) the real DualAveragingStepSizeAdapter driven with generated acceptance-statistic sequences (constant "
    "0/1, alternating, random, extremes; 1-60 updates; 1-4 chains; three reducers; random adapter settings) and compared "
    "after every update and after finalize with an independently written Hoffman-Gelman recursion; (init) the initial "
    "step-size search on real zoo systems, re-evaluating |dH| at the returned step size and its neighbour; (var)/(cov) "
    "the online variance / covariance adapters fed positions (n>=2, offsets up to 1e6 x spread) split into 1-5 chains "
    "of very unequal sizes in random order, compared with exact rational (fractions.Fraction) pooled sample moments, "
    "the documented regularisation, the metric = inverse estimate, and the momentum refresh under the new metric. "
    "distinct_nontrivial = distinct (kind, sequence/partition class, chains, reducer/regularisation, offset class)."
)
ASSUMPTIONS = [
    "dual averaging reference: Hoffman & Gelman (2014) Algorithm 5 recursion in plain floats, agreement to 1e-11 relative",
    "variance/covariance reference: exact rationals; tolerance 20*n*eps*(1+|mean|/std) relative (Welford/Chan conditioning)",
]
REQUIRED = {"constrained_refreshes": 30, "da_updates_compared": 1000, "var_partitions": 100, "cov_partitions": 100, "init_searches": 20}
BUDGET_S = {"quick": 90, "thorough": 900}
EPS = 2.220446049250313e-16


def shard_setup(obs) -> None:
    from mv import common

    common.setup_paths()


def gen_cases(tier: str, seed: int):
    n = {"quick": 640, "thorough": 40000}[tier]
    for i in range(n):
        yield {"kind": ["da", "var", "cov", "init"][i % 4], "seed": [seed, i]}
    for i in range({"quick": 60, "thorough": 3000}[tier]):
        yield {"kind": "constrained_refresh", "seed": [seed, 10**6 + i], "which": ["var", "cov"][i % 2]}


# ------------------------------------------------------------------ dual averaging
def gen_accept_seq(rng, n):
    kind = str(rng.choice(["zeros", "ones", "alternating", "random", "extremes", "beta", "nearly"]))
    if kind == "zeros":
        s = np.zeros(n)
    elif kind == "ones":
        s = np.ones(n)
    elif kind == "alternating":
        s = np.arange(n) % 2 * 1.0
    elif kind == "random":
        s = rng.uniform(0, 1, n)
    elif kind == "extremes":
        s = rng.choice([0.0, 1.0, 1e-300, 1 - 1e-16], n)
    elif kind == "beta":
        s = rng.beta(5, 1.5, n)
    else:
        s = 0.8 + rng.normal(0, 1e-9, n)
    return kind, [float(x) for x in s]


def case_da(case, obs) -> None:
    import mici
    from mici import adapters

    rng = np.random.default_rng([abs(int(s)) for s in case["seed"]])
    n_chain = int(rng.integers(1, 5))
    reducer_name = str(rng.choice(["default", "arithmetic", "geometric", "min"]))
    reducers = {"default": None, "arithmetic": adapters.arithmetic_mean_log_step_size_reducer,
                "geometric": adapters.geometric_mean_log_step_size_reducer, "min": adapters.min_log_step_size_reducer}
    kw = {}
    if rng.integers(0, 2):
        kw = {"adapt_stat_target": float(rng.uniform(0.5, 0.95)), "log_step_size_reg_coefficient": float(10 ** rng.uniform(-2, 0)),
              "iter_decay_coeff": float(rng.uniform(0.55, 1.0)), "iter_offset": int(rng.integers(0, 30))}
    if rng.integers(0, 3) == 0:
        kw["log_step_size_reg_target"] = float(rng.choice([0.0, -0.0, 1.0, float(rng.uniform(-3, 1)), float(rng.uniform(-3, 1))]))
    adapter = mici.adapters.DualAveragingStepSizeAdapter(log_step_size_reducer=reducers[reducer_name], **kw)
    delta = kw.get("adapt_stat_target", 0.8)
    gamma = kw.get("log_step_size_reg_coefficient", 0.05)
    kappa = kw.get("iter_decay_coeff", 0.75)
    t0 = kw.get("iter_offset", 10)
    m = zoo.Model({"sys": "euclidean", "dim": 2, "seed": int(rng.integers(0, 1000)), "metric": "diag"})
    integ = mici.integrators.LeapfrogIntegrator(m.system, None)
    transition = SimpleNamespace(system=m.system, integrator=integ)
    states, finals, seqkinds = [], [], []
    for _c in range(n_chain):
        st = m.random_state(rng)
        adapt_state = adapter.initialize(st, transition)
        eps0 = integ.step_size
        mu = kw.get("log_step_size_reg_target", math.log(10 * eps0))
        if abs(adapt_state["log_step_size_reg_target"] - mu) > 1e-12 * (1 + abs(mu)):
            obs.violation("da:reg-target", f"log_step_size_reg_target {adapt_state['log_step_size_reg_target']} != {mu}")
        n = int(rng.integers(1, 61))
        kind, seq = gen_accept_seq(rng, n)
        seqkinds.append(kind)
        hbar, logbar = 0.0, 0.0
        for it, a in enumerate(seq, start=1):
            adapter.update(adapt_state, st, {"accept_stat": a}, transition)
            hbar = (1 - 1 / (it + t0)) * hbar + (delta - a) / (it + t0)
            logeps = mu - math.sqrt(it) / gamma * hbar
            w = it ** (-kappa)
            logbar = w * logeps + (1 - w) * logbar
            obs.count("da_updates_compared")
            got = integ.step_size
            if not (isinstance(got, float) and got > 0 and math.isfinite(got)):
                obs.violation("da:step-size-not-positive-finite", f"step size {got!r} after update {it} of {kind} sequence, settings {kw}")
                return
            err = abs(math.log(got) - logeps) / (1 + abs(logeps))
            obs.maxi("da.update_log_error", err)
            if err > 1e-11:
                obs.violation("da:update-recursion", f"after update {it} step size {got!r}, reference {math.exp(logeps)!r}; sequence {kind}, settings {kw}")
                return
        errb = abs(adapt_state["smoothed_log_step_size"] - logbar) / (1 + abs(logbar))
        if errb > 1e-11:
            obs.violation("da:smoothed-iterate", f"smoothed log step size {adapt_state['smoothed_log_step_size']!r} vs reference {logbar!r}")
        states.append(adapt_state)
        finals.append(logbar)
    if n_chain == 1 and rng.integers(0, 2):
        adapter.finalize(states[0], None, transition, None)
        want = math.exp(finals[0])
        path = "single-dict"
    else:
        adapter.finalize(states, [None] * n_chain, transition, [None] * n_chain)
        if reducer_name in ("default", "arithmetic"):
            want = sum(math.exp(x) for x in finals) / n_chain
        elif reducer_name == "geometric":
            want = math.exp(sum(finals) / n_chain)
        else:
            want = math.exp(min(finals))
        path = "list"
    got = integ.step_size
    obs.count("da_finalize_compared")
    if not (got > 0 and math.isfinite(got)) or abs(got - want) > 1e-11 * want:
        obs.violation(f"da:finalize:{reducer_name}", f"finalised step size {got!r}, reference {want!r} ({path}, {n_chain} chains)")
    obs.token("da", sorted(set(seqkinds)), n_chain, reducer_name, bool(kw), path)
    obs.sample({"kind": "da", "chains": n_chain, "reducer": reducer_name, "settings": kw, "sequences": seqkinds})


def case_init(case, obs) -> None:
    import mici

    rng = np.random.default_rng([abs(int(s)) for s in case["seed"]])
    variant = (int(case["seed"][-1]) // 4) % 3  # init cases have index = 3 mod 4
    if variant == 1:
        # density with a restricted domain (log barrier at |q_i| = 1): the energy is NaN once a step leaves the domain,
        # typically at a power-of-two step size at which the energy error of the previous one was still small
        dim = int(rng.integers(1, 4))
        a = float(10 ** rng.uniform(-2.5, -0.5))

        class Barrier:
            kind, dim_ = "euclidean", dim

            def __init__(self):
                def nld(x):
                    with np.errstate(all="ignore"):
                        return float(-a * np.sum(np.log(1 - x**2)) + 0.5 * 0.1 * x @ x)

                def grad(x):
                    with np.errstate(all="ignore"):
                        return 2 * a * x / (1 - x**2) + 0.1 * x

                self.system = mici.systems.EuclideanMetricSystem(nld, grad_neg_log_dens=grad)
                self.nld = nld
                self.constrained = False
                self.dim = dim

            def ref_h(self, x, mom):
                return self.nld(np.asarray(x)) + 0.5 * float(np.dot(mom, mom))

            def state(self, x, mom, direction=1):
                return mici.states.ChainState(pos=np.array(x, dtype=float), mom=np.array(mom, dtype=float), dir=direction)

        m = Barrier()
        spec = {"sys": "euclidean", "target": "log-barrier", "a": a, "dim": dim}
        q = rng.uniform(-0.3, 0.3, dim)
        p = rng.standard_normal(dim) * float(rng.choice([0.05, 0.2, 0.5]))
    elif variant == 2:
        # constrained system on a wavy / curved manifold with the constrained integrator: trial step sizes can fail with a
        # convergence error or a non-reversible step error - any failed step counts as "too big"
        spec = zoo.random_sys_spec(rng, kinds=("constrained", "constrained_nh", "gaussian_constrained"), dim_range=(2, 3), metrics=("none", "diag"))
        spec["constr"] = str(rng.choice(["sine", "sine", "sphere", "arctan_sphere"]))
        m = zoo.Model(spec)
        q, p = m.random_point(rng, scale=float(rng.choice([1.0, 2.0, 3.0])))
    else:
        spec = zoo.random_sys_spec(rng, kinds=("euclidean", "gaussian"), dim_range=(1, 5))
        m = zoo.Model(spec)
        q, p = m.random_point(rng, scale=float(rng.choice([0.2, 1.0, 3.0])))
    if getattr(m, "constrained", False):
        kind = "constrained"
        ispec0 = {"int": "constrained", "solver": str(rng.choice(["newton", "quasi_newton"])), "n_inner_step": 1}
    else:
        kind = str(rng.choice(["leapfrog", "bcss2", "bcss3"]))
        ispec0 = {"int": kind}
    integ = zoo.make_integrator(m, dict(ispec0, step_size=0.123))
    adapter = mici.adapters.DualAveragingStepSizeAdapter()
    st = m.state(q, p)
    before = (st.pos.copy(), st.mom.copy())
    adapter.initialize(st, SimpleNamespace(system=m.system, integrator=integ))
    eps = integ.step_size
    obs.count("init_searches")
    if not (np.array_equal(st.pos, before[0]) and np.array_equal(st.mom, before[1])):
        obs.violation("init:state-modified", "initial step size search modified the chain state")
    h0 = m.ref_h(q, p)

    def dh(e):
        from mici.errors import IntegratorError

        ii = zoo.make_integrator(m, dict(ispec0, step_size=e))
        try:
            s2 = ii.step(m.state(q, p))
        except IntegratorError:
            return math.inf  # a step that fails loudly is "too big"
        v = abs(h0 - m.ref_h(s2.pos, s2.mom))
        return math.inf if math.isnan(v) else v

    too_big_at_one = dh(1.0) > math.log(2)
    d_here = dh(eps)
    d_nb = dh(2 * eps) if too_big_at_one else dh(eps / 2)
    obs.add_to_set("init_search_directions", "halving" if too_big_at_one else "doubling")
    if too_big_at_one:
        ok = d_here <= math.log(2) < d_nb
    else:
        ok = d_nb <= math.log(2) < d_here
        if not ok and d_here <= math.log(2) and math.isinf(dh(2 * eps)):
            # doubling ran into a non-finite energy before the error exceeded log 2: the crossing is then between the
            # returned step size (largest finite one below the threshold) and its double
            ok = True
            obs.count("init_searches_stopped_by_non_finite_energy")
    if abs(d_here - math.log(2)) < 1e-9 or abs(d_nb - math.log(2)) < 1e-9:
        obs.inconc("init-search-threshold-tie")
        return
    if not ok:
        obs.violation("init:no-log2-crossing",
                      f"initial step size {eps!r}: |dH|={d_here:.4g}, neighbour {'2x' if too_big_at_one else '/2'} |dH|={d_nb:.4g}, "
                      f"search direction {'halving' if too_big_at_one else 'doubling'}; sys={spec}")
    obs.token("init", spec["sys"], spec.get("target", "smooth"), kind, too_big_at_one, math.isinf(d_here) or math.isinf(d_nb))


# ---------------------------------------------------------- variance / covariance
def gen_positions(rng):
    dim = int(rng.integers(1, 5))
    n = int(rng.choice([2, 3, 5, 17, 60, 200]))
    spread = 10 ** rng.uniform(-3, 2, dim)
    off_class = str(rng.choice(["none", "moderate", "large", "huge"]))
    ratio = {"none": 0.0, "moderate": 10.0, "large": 1e3, "huge": 10 ** rng.uniform(4, 6)}[off_class]
    offset = ratio * spread * rng.choice([-1, 1], dim)
    if rng.integers(0, 2) and dim > 1:
        mix = rng.standard_normal((dim, dim))
        x = rng.standard_normal((n, dim)) @ mix.T * spread + offset
    else:
        x = rng.standard_normal((n, dim)) * spread + offset
    k = int(rng.integers(1, min(5, n) + 1))
    cuts = sorted(rng.choice(np.arange(1, n), k - 1, replace=False).tolist()) if k > 1 else []
    if k > 1 and rng.integers(0, 2):  # very unequal: all but one chain of size 1
        cuts = list(range(1, k))
    parts = [x[a:b] for a, b in zip([0, *cuts], [*cuts, n])]
    order = rng.permutation(k)
    parts = [parts[i] for i in order]
    return x, parts, off_class, dim, n


def exact_moments(x):
    n, dim = x.shape
    fx = [[Fraction(float(v)) for v in row] for row in x]
    mean = [sum(fx[i][j] for i in range(n)) / n for j in range(dim)]
    cov = [[sum((fx[i][a] - mean[a]) * (fx[i][b] - mean[b]) for i in range(n)) / (n - 1) for b in range(dim)] for a in range(dim)]
    return mean, cov


def case_moments(case, obs, which) -> None:
    import mici

    rng = np.random.default_rng([abs(int(s)) for s in case["seed"]])
    x, parts, off_class, dim, n = gen_positions(rng)
    reg = str(rng.choice(["default", "custom", "none"])) if which == "var" else str(rng.choice(["default", "custom"]))
    kw = {} if reg == "default" else ({"reg_iter_offset": int(rng.integers(1, 20)), "reg_scale": float(10 ** rng.uniform(-4, 0))}
                                      if reg == "custom" else {"reg_iter_offset": 0})
    cls = mici.adapters.OnlineVarianceMetricAdapter if which == "var" else mici.adapters.OnlineCovarianceMetricAdapter
    adapter = cls(**kw)
    off = kw.get("reg_iter_offset", 5)
    rs = kw.get("reg_scale", 1e-3)
    m = zoo.Model({"sys": "euclidean", "dim": dim, "seed": 3, "metric": "none"})
    transition = SimpleNamespace(system=m.system, integrator=None)
    adapt_states, chain_states = [], []
    for part in parts:
        st = m.state(part[0], np.zeros(dim))
        a = adapter.initialize(st, transition)
        for row in part:
            st.pos = np.array(row)
            adapter.update(a, st, {}, transition)
        adapt_states.append(a)
        chain_states.append(st)
    zs = [rng.standard_normal(dim) for _ in parts]
    rngs = [ScriptedNormal([z]) for z in zs]
    single = len(parts) == 1 and bool(rng.integers(0, 2))
    if single:
        adapter.finalize(adapt_states[0], chain_states[0], transition, rngs[0])
    else:
        adapter.finalize(adapt_states, chain_states, transition, rngs)
    obs.count(f"{which}_partitions")
    mean, cov = exact_moments(x)
    w = Fraction(n, off + n) if off else Fraction(1)
    regadd = Fraction(rs) * Fraction(off, off + n) if off else Fraction(0)
    metric = m.system.metric
    std = np.array([math.sqrt(float(cov[j][j])) if cov[j][j] > 0 else 0.0 for j in range(dim)])
    kappa = max((abs(float(mean[j])) / std[j]) if std[j] > 0 else 0.0 for j in range(dim))
    tol = 20 * n * EPS * (1 + kappa) + 1e-14
    if which == "var":
        est_ref = np.array([float(cov[j][j] * w + regadd) for j in range(dim)])
        got = 1.0 / np.asarray(metric.diagonal, dtype=float)
        err = float(np.max(np.abs(got - est_ref) / np.maximum(est_ref, 1e-300)))
        if not isinstance(metric, mici.matrices.PositiveDiagonalMatrix):
            obs.violation("var:metric-class", f"metric is {type(metric).__name__}")
        lref = 1 / np.sqrt(est_ref)
        mom_ref = [lref * z for z in zs]
    else:
        est_ref = np.array([[float(cov[a][b] * w + (regadd if a == b else 0)) for b in range(dim)] for a in range(dim)])
        got = np.linalg.inv(np.asarray(metric.array, dtype=float))
        dsc = np.sqrt(np.outer(np.diag(est_ref), np.diag(est_ref)))
        err = float(np.max(np.abs(got - est_ref) / dsc))
        tol = tol * max(1.0, np.linalg.cond(est_ref / dsc))
        mom_ref = None
    obs.maxi(f"{which}.error_over_tol", err / tol, {"n": n, "kappa": kappa, "chains": len(parts)})
    if not np.isfinite(err) or err > tol:
        obs.violation(f"{which}:estimate:{off_class}",
                      f"{which} estimate differs from the exact pooled (regularised) sample moment by {err:.3e} rel (tol {tol:.2e}); "
                      f"n={n} dim={dim} chain sizes {[len(pp) for pp in parts]} offset class {off_class} reg {kw}")
    # momenta refreshed under the new metric with the recorded draws
    for i, st in enumerate(chain_states):
        mom = np.asarray(st.mom, dtype=float)
        if rngs[i].draws != 1:
            obs.violation(f"{which}:momentum-refresh-draws", f"chain {i}: {rngs[i].draws} normal draws in finalize")
        if which == "var":
            e = float(np.max(np.abs(mom - mom_ref[i]) / (np.abs(mom_ref[i]) + 1e-300)))
            if e > 10 * tol + 1e-12:
                obs.violation("var:momentum-refresh", f"momentum after finalize is not sqrt(new metric) z (rel err {e:.2e})")
        else:
            want = np.asarray(metric.sqrt @ zs[i], dtype=float)
            if not np.allclose(mom, want, rtol=1e-12, atol=0):
                obs.violation("cov:momentum-refresh", "momentum after finalize is not sample_momentum under the new metric")
    if which == "cov":
        la = np.asarray(metric.sqrt.array, dtype=float)
        mref = np.linalg.inv(est_ref)
        e = float(np.max(np.abs(la @ la.T - mref)) / np.max(np.abs(mref)))
        if e > 100 * tol * np.linalg.cond(est_ref):
            obs.violation("cov:metric-not-inverse-covariance", f"sqrt(metric) sqrt(metric)^T differs from inverse covariance by {e:.2e}")
    sizes = sorted(len(pp) for pp in parts)
    obs.token(which, len(parts), "unequal" if sizes[-1] > 3 * sizes[0] else "even", reg, off_class, "single" if single else "list",
              "n2" if n == 2 else ("small" if n < 20 else "large"))
    obs.sample({"kind": which, "n": n, "dim": dim, "chain_sizes": [len(pp) for pp in parts], "offset_class": off_class, "reg": kw})


def case_constrained_refresh(case, obs) -> None:
    """The momenta refreshed by finalize must have the law implied by the NEW metric also for a constrained system, whose
    momentum draw is L z projected onto the cotangent space (a projection that itself depends on the metric), on chain
    states that were in use - with whatever they cache - under the old metric."""
    import mici

    rng = np.random.default_rng([abs(int(s)) for s in case["seed"]])
    which = case["which"]
    dim = int(rng.integers(2, 5))
    spec = {"sys": str(rng.choice(["constrained", "constrained_nh", "gaussian_constrained"])), "dim": dim, "seed": int(rng.integers(0, 50)),
            "metric": "none", "constr": str(rng.choice(["sphere", "quadric", "hyperplane", "arctan_quadric"])), "conv": {}}
    m = zoo.Model(spec)
    cls = mici.adapters.OnlineVarianceMetricAdapter if which == "var" else mici.adapters.OnlineCovarianceMetricAdapter
    adapter = cls()
    transition = SimpleNamespace(system=m.system, integrator=None)
    n_chain = int(rng.integers(1, 4))
    adapt_states, chain_states = [], []
    warm = np.random.default_rng(int(rng.integers(0, 2**31)))
    for _c in range(n_chain):
        q, p = m.random_point(rng)
        st = m.state(q, p)
        a = adapter.initialize(st, transition)
        for _i in range(int(rng.integers(3, 9))):
            q, p = m.random_point(rng)
            st.pos = q
            st.mom = m.system.sample_momentum(st, warm)  # what every sampler iteration does with the chain state
            if rng.integers(0, 2):
                _ = m.system.h(st)
            adapter.update(a, st, {}, transition)
        adapt_states.append(a)
        chain_states.append(st)
    zs = [rng.standard_normal(dim) for _ in range(n_chain)]
    rngs = [ScriptedNormal([z]) for z in zs]
    adapter.finalize(adapt_states, chain_states, transition, rngs)
    obs.count("constrained_refreshes")
    metric = m.system.metric
    m.metric_dense = np.array(metric.array, dtype=float)
    lsq = np.array(metric.sqrt.array, dtype=float) if hasattr(metric.sqrt, "array") else np.array(metric.sqrt @ np.identity(dim))
    for i, st in enumerate(chain_states):
        q = np.asarray(st.pos, dtype=float)
        want = m.ref_projector(q) @ (lsq @ zs[i])
        got = np.asarray(st.mom, dtype=float)
        e = float(np.max(np.abs(got - want))) / (1 + float(np.max(np.abs(want))))
        obs.maxi("constrained_refresh.error", e)
        if e > 1e-9:
            j = m.constraint.jac(q)
            cot = float(np.max(np.abs(j @ np.linalg.solve(m.metric_dense, got))))
            obs.violation(f"{which}:momentum-refresh:constrained-system",
                          f"momentum assigned by {cls.__name__}.finalize to chain {i} differs from P_new L_new z by {e:.3e} "
                          f"(|J M_new^-1 p| = {cot:.3e}); the chain state had been used under the old metric; spec={spec}")
    obs.token("constrained_refresh", which, spec["sys"], spec["constr"], n_chain)


def run_case(case, obs) -> None:
    k = case["kind"]
    if k == "constrained_refresh":
        case_constrained_refresh(case, obs)
        return
    if k == "da":
        case_da(case, obs)
    elif k == "init":
        case_init(case, obs)
    else:
        case_moments(case, obs, k)
