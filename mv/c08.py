"""C08 - momentum updates leave the Gaussian momentum law exactly invariant."""

from __future__ import annotations

import numpy as np

from mv import zoo

ID = "C08"
LEVEL = "exploration"
RULE = (
    "each case builds one system (all 10 classes; constant metrics of every matrix type incl. low-rank of both signs, "
    "block, SoftAbs; position-dependent scalar/diagonal/Cholesky/dense/SoftAbs metrics) and drives sample_momentum and "
    "the two momentum transitions with a scripted generator that returns prescribed standard-normal vectors: basis "
    "vectors give the columns of L, random vectors test exact linearity, L L^T is compared with the independent dense "
    "metric (projected for constrained systems); the correlated transition's A=dp'/dp and B=dp'/dz must satisfy "
    "A S A^T + B B^T = S, coefficient 1 must equal the independent refresh bitwise and coefficient 0 must leave the "
    "momentum unchanged without drawing. distinct_nontrivial = distinct (system class, metric kind, coefficient class)."
)
ASSUMPTIONS = ["numpy dense algebra on the zoo's independent metric formulas is the reference (relative 1e-8)"]
REQUIRED = {"L_matrices": 200, "correlated_checks": 200}
BUDGET_S = {"quick": 60, "thorough": 600}
TOL = 1e-8


class ScriptedNormal:
    """Generator double: hands out prescribed standard-normal vectors and counts draws."""

    def __init__(self, vectors) -> None:
        self.vectors = [np.asarray(v, dtype=float) for v in vectors]
        self.draws = 0
        self.methods: list[str] = []

    def _next(self, shape, method):
        self.methods.append(method)
        v = self.vectors[self.draws % len(self.vectors)]
        self.draws += 1
        shape = (shape,) if isinstance(shape, int) else tuple(shape)
        if tuple(v.shape) != shape:
            e = RuntimeError(f"scripted generator asked for shape {shape}, prepared {v.shape}")
            e._mv_harness = True  # noqa: SLF001
            raise e
        return v.copy()

    def standard_normal(self, size=None, *a, **k):  # noqa: ARG002
        return self._next(size, "standard_normal")

    def normal(self, loc=0.0, scale=1.0, size=None):
        return loc + scale * self._next(size, "normal")

    def __getattr__(self, name):
        e = RuntimeError(f"momentum code used unexpected generator method {name}")
        e._mv_harness = True  # noqa: SLF001
        raise e


def shard_setup(obs) -> None:
    from mv import common

    common.setup_paths()


def gen_cases(tier: str, seed: int):
    n = {"quick": 300, "thorough": 40000}[tier]
    rng = np.random.default_rng([seed, 8])
    for k in zoo.SYSTEMS:
        for mk in (zoo.CONST_METRICS if k in zoo.TRACTABLE else ("-",)):
            spec = zoo.random_sys_spec(rng, kinds=(k,), dim_range=(2, 5))
            if k in zoo.TRACTABLE:
                spec["metric"] = mk
            yield {"spec": spec, "seed": [seed, int(rng.integers(0, 2**31))]}
    # directed: metrics written as expressions of matrix objects (multiples / quotients / inverses, formed before or after
    # the operand's factorisation was computed)
    combos = [(b, t) for b in zoo.DERIVED_BASES for t in zoo.DERIVED_TEMPLATES]
    for j, (b, t) in enumerate(combos * (1 if tier == "quick" else 10)):
        spec = zoo.random_sys_spec(rng, kinds=(zoo.TRACTABLE[(j + seed) % len(zoo.TRACTABLE)],), dim_range=(2, 5))
        spec["metric"] = f"derived:{b}:{'+'.join(t)}"
        yield {"spec": spec, "seed": [seed, int(rng.integers(0, 2**31))]}
    for _ in range(n):
        yield {"spec": zoo.random_sys_spec(rng), "seed": [seed, int(rng.integers(0, 2**31))]}


def rel(a, b):
    a, b = np.asarray(a, dtype=float), np.asarray(b, dtype=float)
    if a.shape != b.shape:
        return np.inf
    return float(np.max(np.abs(a - b), initial=0.0)) / max(1.0, float(np.max(np.abs(b), initial=0.0)))


def run_case(case, obs) -> None:  # noqa: C901, PLR0915
    from mici.transitions import CorrelatedMomentumTransition, IndependentMomentumTransition

    spec = case["spec"]
    rng = np.random.default_rng([abs(int(s)) for s in case["seed"]])
    m = zoo.Model(spec)
    s = m.system
    cname = type(s).__name__
    mk = spec.get("metric", spec.get("generic", "-"))
    dim = m.dim
    q, p = m.random_point(rng)
    metric = m.ref_metric(q)
    if m.constrained:
        pr = m.ref_projector(q)
        sigma = pr @ metric @ pr.T
    else:
        sigma = metric

    def viol(key, msg):
        obs.violation(f"{key}:{cname}", f"{msg}; metric={mk} spec={spec}")

    def draw(z):
        g = ScriptedNormal([z])
        out = np.array(s.sample_momentum(m.state(q, p), g), dtype=float)
        return out, g

    ident = np.identity(dim)
    cols = []
    for i in range(dim):
        out, g = draw(ident[i])
        if g.draws != 1:
            viol("sample_momentum:draw-count", f"sample_momentum made {g.draws} normal draws (expected exactly one vector)")
        cols.append(out)
    lmat = np.stack(cols, axis=1)
    obs.count("L_matrices")
    zero, _ = draw(np.zeros(dim))
    if np.max(np.abs(zero)) > 1e-12:
        viol("sample_momentum:affine-offset", f"sample_momentum(z=0) = {zero} (law not centred)")
    for _ in range(3):
        z = rng.standard_normal(dim)
        out, _ = draw(z)
        e = rel(out, lmat @ z)
        obs.maxi("relerr.linearity", e)
        if e > 1e-10:
            viol("sample_momentum:non-linear", f"sample_momentum is not the linear image L z of the normal draw: {e:.3e}")
    e = rel(lmat @ lmat.T, sigma)
    obs.maxi("relerr.LLt", e, {"sys": spec["sys"], "metric": mk})
    if e > TOL:
        viol("sample_momentum:covariance", f"L L^T differs from the {'projected ' if m.constrained else ''}metric by {e:.3e}")
    if m.constrained:
        j = m.constraint.jac(q)
        res = np.max(np.abs(j @ np.linalg.solve(metric, lmat)))
        obs.maxi("cotangent.residual", res)
        if res > 1e-8:
            viol("sample_momentum:not-in-cotangent-space", f"J M^-1 L = {res:.3e}")
    # ---- transitions ------------------------------------------------------------------
    st = m.state(q, p)
    z = rng.standard_normal(dim)
    ref_ind, _ = draw(z)
    new_state, stats = IndependentMomentumTransition(s).sample(st, ScriptedNormal([z]))
    if not np.array_equal(np.asarray(new_state.mom), ref_ind) or stats is not None:
        viol("independent-transition", "IndependentMomentumTransition did not set mom = sample_momentum(draw)")
    if not np.array_equal(np.asarray(new_state.pos), q):
        viol("independent-transition:position", "momentum transition changed the position")
    for coeff in (0.0, 1.0, float(rng.uniform(0.01, 0.99)), float(rng.choice([1e-6, 1 - 1e-6, 0.5]))):
        tr = CorrelatedMomentumTransition(s, mom_resample_coeff=coeff)
        obs.count("correlated_checks")
        g = ScriptedNormal([z])
        out_state, _ = tr.sample(m.state(q, p), g)
        out = np.array(out_state.mom, dtype=float)
        if coeff == 1.0:
            if not np.array_equal(out, ref_ind):
                viol("correlated:coeff-1", "coefficient 1 is not bitwise the independent refresh for the same draw")
        elif coeff == 0.0:
            if not np.array_equal(out, p) or g.draws != 0:
                viol("correlated:coeff-0", f"coefficient 0 changed the momentum or drew {g.draws} normals")
        else:
            # A = dp'/dp, B = dp'/dz extracted by linearity
            def f(pp, zz):
                gg = ScriptedNormal([zz])
                so, _ = tr.sample(m.state(q, pp), gg)
                return np.array(so.mom, dtype=float)

            base = f(np.zeros(dim), np.zeros(dim))
            amat = np.stack([f(ident[i], np.zeros(dim)) - base for i in range(dim)], axis=1)
            bmat = np.stack([f(np.zeros(dim), ident[i]) - base for i in range(dim)], axis=1)
            if np.max(np.abs(base)) > 1e-12:
                viol("correlated:affine-offset", "correlated update maps (0,0) to a non-zero momentum")
            e = rel(amat @ p + bmat @ z, out)
            if e > 1e-10:
                viol("correlated:non-linear", f"correlated update is not linear in (p, z): {e:.3e}")
            e = rel(amat @ sigma @ amat.T + bmat @ bmat.T, sigma)
            obs.maxi("relerr.correlated.invariance", e, {"coeff": coeff})
            if e > TOL:
                viol("correlated:law-not-invariant", f"A S A^T + B B^T differs from S by {e:.3e} for coefficient {coeff}")
        cclass = "0" if coeff == 0 else ("1" if coeff == 1 else "interior")
        obs.token(spec["sys"], mk, cclass)
    # the refresh coefficient is a public attribute: a transition whose coefficient is reassigned must behave like a
    # transition constructed with the new value
    c1, c2 = float(rng.uniform(0.05, 0.95)), float(rng.uniform(0.05, 0.95))
    tr = CorrelatedMomentumTransition(s, mom_resample_coeff=c1)
    tr.sample(m.state(q, p), ScriptedNormal([z]))
    tr.mom_resample_coeff = c2
    got, _ = tr.sample(m.state(q, p), ScriptedNormal([z]))
    want, _ = CorrelatedMomentumTransition(s, mom_resample_coeff=c2).sample(m.state(q, p), ScriptedNormal([z]))
    obs.count("correlated_checks")
    if not np.array_equal(np.asarray(got.mom), np.asarray(want.mom)):
        viol("correlated:stale-coefficient", f"after reassigning mom_resample_coeff {c1} -> {c2} the update differs from a fresh transition's")
    # metric reassigned on a live system (what the metric adapters do): fresh momenta must follow the new metric
    if spec["sys"] in zoo.TRACTABLE:
        new_arg, new_dense = zoo.const_metric(str(rng.choice(["diag", "dense", "scaled", "chol_lower", "eig", "lowrank_minus"])), dim, rng)
        s.metric = new_arg
        m.metric_dense = new_dense
        sig2 = new_dense
        if m.constrained:
            pr2 = m.ref_projector(q)
            sig2 = pr2 @ new_dense @ pr2.T
        l2 = np.stack([draw(ident[i])[0] for i in range(dim)], axis=1)
        e = rel(l2 @ l2.T, sig2)
        obs.count("L_matrices")
        if e > TOL:
            viol("sample_momentum:covariance-after-metric-reassignment", f"after system.metric was reassigned L L^T differs from the new metric by {e:.3e}")
    # momentum None -> full refresh for any coefficient
    from mici.states import ChainState

    ref_ind, _ = draw(z)  # (the metric may have been reassigned above)
    st_none = ChainState(pos=q.copy(), mom=None, dir=1)
    out_state, _ = CorrelatedMomentumTransition(s, 0.3).sample(st_none, ScriptedNormal([z]))
    if not np.array_equal(np.asarray(out_state.mom), ref_ind):
        viol("correlated:mom-none", "state without momentum did not receive a full refresh")
    obs.sample({"sys": spec["sys"], "metric": mk, "dim": dim})
