"""C18 - memoisation delivers its efficiency contract."""

from __future__ import annotations

import numpy as np

from mv import hist, intgen, zoo

ID = "C18"
LEVEL = "exploration"
RULE = (
    "cases: (history) the C09 history generator (assign / in-place / copy / read-only copy / pickle / call / flow / new "
    "system, two system objects sharing the states) executed with counting wrappers on every user model function and a "
    "minimal reference cache model kept per (state object, system object): a value is known from the evaluation that "
    "produced it (tuple-returning derivative functions also make the lower-order values known) until a variable it "
    "depends on is assigned; a copy inherits what was known at copy time; pickling forgets callables. A user function "
    "may be evaluated in a call only if its value was not known before that call, and at most once per call. "
    "(trajectory) chains through all four transition kinds with explicit integrators (leapfrog, BCSS, random "
    "compositions): per transition gradient evaluations <= (h1 sub-steps per step) * steps + d where d = number of "
    "directions explored from the start state (1 Metropolis, <= 2 dynamic), no user function evaluated twice at "
    "byte-identical arguments within one transition (start-position gradient: once per direction), and with "
    "value-returning gradients and an integrator that ends on a momentum kick the density function is evaluated at most "
    "once per chain. distinct_nontrivial = distinct (kind, system "
    "class, convention flags, op signature / transition, integrator, stages)."
)
ASSUMPTIONS = [
    "the reference cache model is the weakest one the property implies (per state object, copy-time inheritance, judged "
    "against the model as it stood before each call; evaluation order inside one call is not judged)",
]
REQUIRED = {"calls_executed": 1500, "trajectory_transitions": 200}
BUDGET_S = {"quick": 120, "thorough": 1200}


def shard_setup(obs) -> None:
    from mv import common

    common.setup_paths()


def gen_cases(tier: str, seed: int):
    n = {"quick": 400, "thorough": 30000}[tier]
    maxlen = {"quick": 12, "thorough": 40}[tier]
    rng = np.random.default_rng([seed, 18])
    for i in range(n):
        k = zoo.SYSTEMS[i % len(zoo.SYSTEMS)]
        spec = zoo.random_sys_spec(rng, kinds=(k,), dim_range=(2, 4))
        yield {"kind": "history", "spec": spec, "length": int(rng.integers(4, maxlen + 1)), "seed": [seed, int(rng.integers(0, 2**31))]}
    for k in zoo.SYSTEMS:
        spec = zoo.random_sys_spec(rng, kinds=(k,), dim_range=(2, 3))
        yield {"kind": "templates", "spec": spec, "seed": [seed, int(rng.integers(0, 2**31))]}
    # directed: highest-order derivative first (value-returning conventions), then everything it should have made known
    for rep in range({"quick": 3, "thorough": 30}[tier]):
        for k in zoo.SYSTEMS:
            spec = zoo.random_sys_spec(rng, kinds=(k,), dim_range=(2, 4))
            spec["conv"] = {c: 1 for c in ("grad", "jac", "mhp", "vjp", "hess", "mtp")}
            yield {"kind": "aux", "spec": spec, "seed": [seed, int(rng.integers(0, 2**31))], "variant": rep % 3}
    m = {"quick": 120, "thorough": 8000}[tier]
    for i in range(m):
        k = ["euclidean", "gaussian"][i % 2]
        spec = zoo.random_sys_spec(rng, kinds=(k,), dim_range=(1, 4))
        spec["conv"]["grad"] = i % 4 < 2
        ik = ["leapfrog", "bcss2", "bcss3", "bcss4", "symcomp"][i % 5]
        yield {"kind": "trajectory", "spec": spec, "ispec": intgen.random_int_spec(rng, k, kinds=(ik,)),
               "transition": ["static", "random", "multinomial", "slice"][i % 4], "frac": float(rng.uniform(0.05, 0.8)),
               "n_iter": int(rng.integers(2, 7)), "correlated": bool(rng.integers(0, 3) == 0), "seed": [seed, int(rng.integers(0, 2**31))]}


def case_trajectory(case, obs) -> None:
    import mici

    spec, ispec = case["spec"], dict(case["ispec"])
    rng = np.random.default_rng([abs(int(s)) for s in case["seed"]])
    m = zoo.Model(spec)
    q, p = m.random_point(rng)
    ispec["step_size"] = case["frac"] / intgen.frequency(m, q)
    integ = zoo.make_integrator(m, ispec)
    # h1 evaluations per step: the composition applies h1_flow at `stages` (+1 shared with the neighbour step) points
    n_h1 = sum(1 for f in getattr(integ, "flows", [None, None, None]) if getattr(f, "__name__", "h1_flow") == "h1_flow") \
        if hasattr(integ, "flows") else 2
    h1_first = ispec.get("h1_first", True) if ispec["int"] == "symcomp" else True
    per_step = n_h1 - 1 if h1_first else n_h1  # new gradient positions per step (first h1 kick reuses the cached gradient)
    tkind = case["transition"]
    if tkind == "static":
        tr = mici.transitions.MetropolisStaticIntegrationTransition(m.system, integ, n_step=int(rng.integers(1, 6)))
    elif tkind == "random":
        tr = mici.transitions.MetropolisRandomIntegrationTransition(m.system, integ, n_step_range=(1, 6))
    elif tkind == "multinomial":
        tr = mici.transitions.MultinomialDynamicIntegrationTransition(m.system, integ, max_tree_depth=4)
    else:
        tr = mici.transitions.SliceDynamicIntegrationTransition(m.system, integ, max_tree_depth=4)
    momtr = (mici.transitions.CorrelatedMomentumTransition(m.system, 0.5) if case["correlated"]
             else mici.transitions.IndependentMomentumTransition(m.system))
    g = np.random.default_rng(int(rng.integers(0, 2**31)))
    st = m.state(q, p)
    total_steps = 0
    total_bound = 0
    dynamic = tkind in ("multinomial", "slice")
    # the start position's gradient is evaluated on the copies made by the first step in each direction, never on the
    # start state itself: once per direction explored (<= 2 for dynamic trees, <= 1 for Metropolis trajectories)
    extra = 2 if dynamic else 1
    m.calls.clear()
    cname = type(m.system).__name__
    for it in range(case["n_iter"]):
        st, _ = momtr.sample(st, g)
        before = dict(m.calls)
        m.log = []
        start_bytes = np.asarray(st.pos).tobytes()
        st, stats = tr.sample(st, g)
        obs.count("trajectory_transitions")
        n_step = int(stats["n_step"])
        total_steps += n_step
        dgrad = m.calls["grad_neg_log_dens"] - before.get("grad_neg_log_dens", 0)
        bound = per_step * n_step + extra
        total_bound += bound
        obs.maxi("grad_evals_over_bound", dgrad / bound)
        if dgrad > bound:
            obs.violation(f"gradient-evaluations-exceed-bound:{tkind}:{type(integ).__name__}",
                          f"{dgrad} gradient evaluations in one {tkind} transition of {n_step} steps (bound {per_step} per step + {extra}); "
                          f"iteration {it}; sys={spec} int={ispec}")
        seen = set()
        start_grad = 0
        for name, arg in m.log:
            if name == "grad_neg_log_dens" and arg == start_bytes:
                start_grad += 1
                if start_grad <= extra:
                    continue
            if (name, arg) in seen or (name == "grad_neg_log_dens" and arg == start_bytes):
                obs.violation(f"evaluated-twice-at-identical-argument:{name}:{tkind}",
                              f"user function {name} evaluated twice at byte-identical arguments within one {tkind} transition "
                              f"({cname}, {type(integ).__name__}); sys={spec} int={ispec}")
                break
            seen.add((name, arg))
        m.log = None
    total_grad = m.calls["grad_neg_log_dens"]
    if total_grad > total_bound:
        obs.violation(f"chain-gradient-evaluations-exceed-bound:{tkind}:{type(integ).__name__}",
                      f"{total_grad} gradient evaluations over a chain of {total_steps} integrator steps (bound {total_bound}): "
                      f"the gradient at the start of a transition was not reused across transitions / copies; sys={spec} int={ispec}")
    if spec["conv"].get("grad") and h1_first and m.calls["neg_log_dens"] > 1:
        obs.violation(f"density-re-evaluated-with-value-returning-gradient:{tkind}",
                      f"neg_log_dens evaluated {m.calls['neg_log_dens']} times in a chain although the gradient function returns the value; "
                      f"sys={spec} int={ispec}")
    obs.token("trajectory", spec["sys"], bool(spec["conv"].get("grad")), tkind, ispec["int"], intgen.stages(ispec), case["correlated"])
    obs.sample({"kind": "trajectory", "sys": spec["sys"], "int": ispec, "transition": tkind, "total_steps": total_steps,
                "grad_evals": total_grad, "dens_evals": m.calls["neg_log_dens"]})


def aux_program(kind: str, variant: int) -> list:
    if kind == "riem_softabs":
        top = [["mtp_neg_log_dens"], ["vjp_metric_func"], ["dh1_dpos"]][variant]
    elif kind in zoo.RIEMANNIAN:
        top = [["vjp_metric_func"], ["dh2_dpos"], ["dh1_dpos"]][variant]
    elif kind in ("constrained_nh", "gaussian_constrained"):
        top = [["mhp_constr"], ["grad_log_det_sqrt_gram"], ["dh1_dpos"]][variant]
    elif kind == "constrained":
        top = [["jacob_constr"], ["gram"], ["grad_neg_log_dens"]][variant]
    else:
        top = [["grad_neg_log_dens"], ["dh1_dpos"], ["dh_dpos"]][variant]
    rest = [mth for mth in hist.methods_for(kind) if mth not in top]
    prog = [["call", 0, mth, 0] for mth in top + rest]
    # the same again on a copy and after a momentum-only assignment: still nothing may be evaluated
    prog += [["copy", 0, False], ["assign", 1, "mom", 12345]] + [["call", 1, mth, 0] for mth in top + rest]
    return prog


def run_case(case, obs) -> None:
    if case["kind"] == "trajectory":
        case_trajectory(case, obs)
        return
    if case["kind"] == "templates":
        spec = case["spec"]
        rng = np.random.default_rng([abs(int(s)) for s in case["seed"]])
        for prog in hist.template_programs(spec["sys"], rng):
            runner = hist.Runner(spec, obs, "c18")
            runner.start(rng)
            runner.run(prog)
            obs.count("template_histories")
        obs.token("templates", spec["sys"])
        return
    if case["kind"] == "aux":
        spec = case["spec"]
        rng = np.random.default_rng([abs(int(s)) for s in case["seed"]])
        runner = hist.Runner(spec, obs, "c18")
        runner.start(rng)
        runner.run(aux_program(spec["sys"], case["variant"]))
        obs.count("aux_programs")
        obs.token("aux", spec["sys"], case["variant"])
        return
    spec = case["spec"]
    rng = np.random.default_rng([abs(int(s)) for s in case["seed"]])
    prog = hist.gen_history(rng, spec["sys"], case["length"])
    runner = hist.Runner(spec, obs, "c18")
    runner.start(rng)
    runner.run(prog)
    obs.count("histories")
    conv = {k: v for k, v in spec.get("conv", {}).items() if v}
    obs.token("history", spec["sys"], sorted(conv), sorted({op[0] for op in prog}), len(prog) > 12)
    obs.sample({"kind": "history", "sys": spec["sys"], "conv": spec.get("conv"), "program": prog[:8]})
