"""C11 - differentiable matrices report the true parameter gradients."""

from __future__ import annotations

import numpy as np
import scipy.linalg as sla

ID = "C11"
LEVEL = "exploration"
RULE = (
    "each case builds one differentiable matrix class with a random option set (sign, lower/upper, inner matrix, "
    "SoftAbs coefficient, block composition, eigenvalue-gap class) and compares grad_log_abs_det and "
    "grad_quadratic_form_inv(v) -- in value along a complete basis of parameter directions and in structure (type, "
    "shape, tuple length, symmetry) -- with 4th-order finite differences of the dense formula of the parametrisation. "
    "distinct_nontrivial = distinct (class, option tuple, size class, gap class) combinations (size-1 scalar cases "
    "without options count as trivial)."
)
ASSUMPTIONS = [
    "finite differences (h=1e-3, 4th order) of log|det| and v'M^-1v of the dense parametrisation formula are the reference; "
    "relative tolerance 2e-6",
    "gradients with respect to symmetric-array parameters are judged along symmetric directions (the convention the "
    "systems use when chaining through vector-Jacobian products) plus symmetry of the returned array",
]
REQUIRED = {"gradients_compared": 150}
BUDGET_S = {"quick": 90, "thorough": 900}
TOL = 2e-6

CLASSES = ("scaled", "pos_scaled", "diag", "pos_diag", "tri_def", "tri_pd", "dense_def", "dense_pd", "dense_product",
           "softabs", "block", "lowrank")


def gen_cases(tier: str, seed: int):
    n = {"quick": 360, "thorough": 40000}[tier]
    yield {"cls": "softabs", "seed": [seed, 0], "size": 3, "gap": "equal", "directed": True}
    yield {"cls": "softabs", "seed": [seed, 1], "size": 4, "gap": "near", "directed": True}
    yield {"cls": "softabs", "seed": [seed, 2], "size": 3, "gap": "exact", "directed": True}
    yield {"cls": "softabs", "seed": [seed, 3], "size": 2, "gap": "exact", "directed": True}
    for i in range(n):
        cls = CLASSES[i % len(CLASSES)]
        case = {"cls": cls, "seed": [seed, i + 2], "size": 1 + (i // len(CLASSES)) % 5}
        if cls == "softabs":
            case["gap"] = ["separated", "exact", "near", "equal"][(i // len(CLASSES)) % 4]
        yield case


def _spd(rng, n, lo=0.5, hi=2.5):
    q, _ = np.linalg.qr(rng.standard_normal((n, n)))
    lam = rng.uniform(lo, hi, n)
    a = (q * lam) @ q.T
    return (a + a.T) / 2


class Param:
    """One differentiable matrix: builder of the real object, dense formula, parameter and its direction basis."""

    def __init__(self, cls, rng, n, case):  # noqa: C901, PLR0912, PLR0915
        from mici import matrices as mm

        self.cls, self.n = cls, n
        self.opts = []
        self.space = "array"
        if cls in ("scaled", "pos_scaled"):
            s = float(rng.uniform(0.3, 3.0)) * (1 if cls == "pos_scaled" else rng.choice([-1, 1]))
            self.p0 = np.float64(s)
            self.space = "scalar"
            c = mm.PositiveScaledIdentityMatrix if cls == "pos_scaled" else mm.ScaledIdentityMatrix
            self.build = lambda p: c(float(p), n)
            self.dense = lambda p: float(p) * np.identity(n)
            self.opts = [s > 0]
        elif cls in ("diag", "pos_diag"):
            d = rng.uniform(0.3, 3.0, n) * (1 if cls == "pos_diag" else rng.choice([-1, 1], n))
            self.p0 = d
            c = mm.PositiveDiagonalMatrix if cls == "pos_diag" else mm.DiagonalMatrix
            self.build = lambda p: c(np.array(p))
            self.dense = lambda p: np.diag(p)
        elif cls in ("tri_def", "tri_pd"):
            lower = bool(rng.integers(0, 2))
            sign = 1 if cls == "tri_pd" else int(rng.choice([-1, 1]))
            full = rng.standard_normal((n, n)) * 0.5
            np.fill_diagonal(full, rng.uniform(0.6, 1.8, n) * rng.choice([-1, 1], n))
            self.p0 = full  # full array: entries outside the triangle are masked by the class
            mask = (lambda a: np.tril(a)) if lower else (lambda a: np.triu(a))
            # the factor is handed over as an array with factor_is_lower, or as a TriangularMatrix object (factor_is_lower
            # is then documented to be ignored and left at its default, which may disagree with factor.lower)
            as_object = bool(rng.integers(0, 2))
            if cls == "tri_pd":
                self.build = (lambda p: mm.TriangularFactoredPositiveDefiniteMatrix(mm.TriangularMatrix(np.array(p), lower=lower))) if as_object \
                    else (lambda p: mm.TriangularFactoredPositiveDefiniteMatrix(np.array(p), factor_is_lower=lower))
            else:
                self.build = (lambda p: mm.TriangularFactoredDefiniteMatrix(mm.TriangularMatrix(np.array(p), lower=lower), sign=sign)) if as_object \
                    else (lambda p: mm.TriangularFactoredDefiniteMatrix(np.array(p), sign=sign, factor_is_lower=lower))
            self.dense = lambda p: sign * mask(p) @ mask(p).T
            self.opts = [lower, sign, "factor-object" if as_object else "factor-array"]
        elif cls in ("dense_def", "dense_pd"):
            posdef = True if cls == "dense_pd" else bool(rng.integers(0, 2))
            sg = 1 if posdef else -1
            self.p0 = sg * _spd(rng, n)
            self.space = "sym"
            # constructor options: bare array (factor computed lazily), caller-supplied lower / upper triangular factor
            # (matrix = sign * F F^T in both cases), inverse-triangular factor, or the object obtained as the inverse of
            # the dense matrix holding the inverse array (its factor is an upper inverse-triangular one)
            variant = str(rng.choice(["array", "factor_lower", "factor_upper", "factor_inv_lower", "via_inv"]))

            def build(p, variant=variant, sg=sg, posdef=posdef, cls=cls):
                a = np.array(p)
                a = (a + a.T) / 2
                kw = {} if cls == "dense_pd" else {"is_posdef": posdef}
                c = mm.DensePositiveDefiniteMatrix if cls == "dense_pd" else mm.DenseDefiniteMatrix
                if variant == "array":
                    return c(a, **kw)
                if variant == "via_inv":
                    return c(np.linalg.inv(a), **kw).inv
                if variant == "factor_lower":
                    return c(a, mm.TriangularMatrix(np.linalg.cholesky(sg * a), lower=True), **kw)
                if variant == "factor_upper":
                    lo = np.linalg.cholesky((sg * a)[::-1, ::-1])
                    return c(a, mm.TriangularMatrix(np.ascontiguousarray(lo[::-1, ::-1]), lower=False), **kw)
                # sg * a = F F^T with F = (L^-1)^-1 handed over as an InverseTriangularMatrix of L^-1
                lo = np.linalg.cholesky(sg * a)
                return c(a, mm.InverseTriangularMatrix(np.linalg.inv(lo), lower=True), **kw)

            self.build = build
            self.dense = lambda p: (np.array(p) + np.array(p).T) / 2
            self.opts = [posdef, variant]
        elif cls == "dense_product":
            k = n + int(rng.integers(1, 3))
            rect = rng.standard_normal((n, k))
            while np.linalg.cond(rect @ rect.T) > 200:
                rect = rng.standard_normal((n, k))
            self.p0 = rect
            if rng.integers(0, 2):
                pd = _spd(rng, k)
                pdm = mm.DensePositiveDefiniteMatrix(pd.copy())
                self.build = lambda p: mm.DensePositiveDefiniteProductMatrix(np.array(p), pdm)
                self.dense = lambda p: p @ pd @ p.T
                self.opts = ["inner"]
            else:
                self.build = lambda p: mm.DensePositiveDefiniteProductMatrix(np.array(p))
                self.dense = lambda p: p @ p.T
                self.opts = ["no-inner"]
        elif cls == "softabs":
            coeff = float(10 ** rng.uniform(-2, 2))
            gap = case.get("gap", "separated")
            q, _ = np.linalg.qr(rng.standard_normal((n, n)))
            lam = np.sort(rng.uniform(0.3, 2.0, n) * rng.choice([-1, 1], n))
            if n >= 2 and gap == "equal":
                lam[1] = lam[0]
                if n >= 4:
                    lam[3] = lam[2]
            elif n >= 2 and gap == "near":
                lam[1] = lam[0] + 10 ** rng.uniform(-12, -3)
            s = (q * lam) @ q.T
            s = (s + s.T) / 2
            if gap == "exact" and n >= 2:  # bit-identical repeated eigenvalues
                lam[1] = lam[0]
                s = np.diag(lam[rng.permutation(n)])
            # keep the regularised metric reasonably conditioned so that FD is meaningful
            self.p0 = s
            self.space = "sym"
            self.build = lambda p: mm.SoftAbsRegularizedPositiveDefiniteMatrix(np.array(p), coeff)

            def dense(p, coeff=coeff):
                w, v = np.linalg.eigh((p + p.T) / 2)
                x = coeff * w
                with np.errstate(divide="ignore", invalid="ignore"):
                    reg = np.where(np.abs(x) < 1e-8, (1 + x**2 / 3) / coeff, w / np.tanh(x))
                return (v * reg) @ v.T

            self.dense = dense
            self.gap = gap if n >= 2 else "n/a"
            self.opts = [round(np.log10(coeff)), self.gap]
        elif cls == "block":
            nb = 2 if n < 3 else int(rng.integers(2, 4))
            kinds = [str(rng.choice(["pos_scaled", "pos_diag", "tri_pd", "dense_pd", "softabs", "lowrank", "dense_product"]))
                     for _ in range(nb)]
            self.subs = [Param(k, rng, int(rng.integers(1, 4)), {"gap": "separated"}) for k in kinds]
            self.p0 = tuple(sp.p0 for sp in self.subs)
            self.space = "tuple"
            self.build = lambda p: mm.PositiveDefiniteBlockDiagonalMatrix(tuple(sp.build(pp) for sp, pp in zip(self.subs, p)))
            self.dense = lambda p: sla.block_diag(*[sp.dense(pp) for sp, pp in zip(self.subs, p)])
            self.n = sum(sp.n for sp in self.subs)
            self.opts = kinds
        elif cls == "lowrank":
            sign = int(rng.choice([-1, 1]))
            r = int(rng.integers(1, max(2, n // 2 + 1)))
            base = _spd(rng, n)
            has_inner = bool(rng.integers(0, 2))
            inner = _spd(rng, r) if has_inner else np.identity(r)
            f = rng.standard_normal((n, r)) * 0.5
            if sign == -1:
                top = np.max(np.linalg.eigvals(np.linalg.solve(base, f @ inner @ f.T)).real)
                f = f * np.sqrt(0.5 / max(top, 1e-9))
            self.p0 = f
            bm = mm.DensePositiveDefiniteMatrix(base.copy()) if rng.integers(0, 2) else mm.PositiveDiagonalMatrix(np.diag(base).copy())
            based = np.array(bm.array)
            im = mm.DensePositiveDefiniteMatrix(inner.copy()) if has_inner else None
            precap = bool(rng.integers(0, 3) == 0)  # capacitance matrix supplied by the caller (constructor option)

            def build(p, bm=bm, im=im, sign=sign, precap=precap, inner=inner, based=based):
                cap = None
                if precap:
                    pa = np.array(p)
                    cap = mm.DenseSymmetricMatrix(np.linalg.inv(inner) + sign * pa.T @ np.linalg.solve(based, pa))
                return mm.PositiveDefiniteLowRankUpdateMatrix(mm.DenseRectangularMatrix(np.array(p)), bm, im, capacitance_matrix=cap, sign=sign)

            self.build = build
            self.dense = lambda p: based + sign * p @ inner @ p.T
            self.opts = [sign, has_inner, type(bm).__name__, "precap" if precap else "lazycap"]
        else:
            raise ValueError(cls)

    # ---- direction basis ------------------------------------------------------------
    def basis(self, p=None, space=None):
        p = self.p0 if p is None else p
        space = self.space if space is None else space
        if space == "scalar":
            return [np.float64(1.0)]
        if space == "tuple":
            out = []
            for i, sp in enumerate(self.subs):
                for d in sp.basis():
                    out.append(tuple(d if j == i else _zero_like(sq.p0) for j, sq in enumerate(self.subs)))
            return out
        out = []
        p = np.asarray(p)
        for idx in np.ndindex(p.shape):
            if space == "sym":
                if idx[0] > idx[1]:
                    continue
                e = np.zeros(p.shape)
                e[idx] = 1.0
                e[idx[::-1]] = 1.0
            else:
                e = np.zeros(p.shape)
                e[idx] = 1.0
            out.append(e)
        return out


def _zero_like(p):
    if isinstance(p, tuple):
        return tuple(_zero_like(q) for q in p)
    return np.zeros_like(np.asarray(p, dtype=float))


def _add(p, d, t):
    if isinstance(p, tuple):
        return tuple(_add(pp, dd, t) for pp, dd in zip(p, d))
    return p + t * d


def _inner(g, d):
    if isinstance(d, tuple):
        if not isinstance(g, tuple) or len(g) != len(d):
            raise StructureError(f"gradient is {type(g).__name__} (len {len(g) if hasattr(g, '__len__') else '-'}) for a tuple parameter of length {len(d)}")
        return sum(_inner(gg, dd) for gg, dd in zip(g, d))
    g = np.asarray(g, dtype=float)
    d = np.asarray(d, dtype=float)
    if g.shape != d.shape:
        raise StructureError(f"gradient shape {g.shape} != parameter shape {d.shape}")
    return float(np.sum(g * d))


class StructureError(Exception):
    _mv_harness = True


def fd_dir(f, p, d, h=1e-3):
    return (-f(_add(p, d, 2 * h)) + 8 * f(_add(p, d, h)) - 8 * f(_add(p, d, -h)) + f(_add(p, d, -2 * h))) / (12 * h)


def run_case(case, obs) -> None:
    rng = np.random.default_rng([abs(int(s)) for s in case["seed"]])
    prm = Param(case["cls"], rng, case["size"], case)
    n = prm.n
    v = rng.standard_normal(n)
    d0 = prm.dense(prm.p0)
    if np.linalg.cond(d0) > 1e5:
        obs.inconc("ill-conditioned-parameter")
        return
    m = prm.build(prm.p0)
    cname = type(m).__name__
    f1 = lambda p: np.linalg.slogdet(prm.dense(p))[1]  # noqa: E731
    f2 = lambda p: float(v @ np.linalg.solve(prm.dense(p), v))  # noqa: E731
    gap = getattr(prm, "gap", "n/a")
    tag = f"{cname}" + (f":gap-{gap}" if case["cls"] == "softabs" and gap in ("near", "equal", "exact") else "")
    # access history: the gradients are requested in either order, each twice, optionally after other lazily computed
    # attributes of the same object (inverse, log-determinant, dense array) have been evaluated
    pre = [str(x) for x in rng.choice(["inv", "log_abs_det", "array", "inv_product"], size=int(rng.integers(0, 3)), replace=False)]
    for a in pre:
        _ = {"inv": lambda: m.inv, "log_abs_det": lambda: m.log_abs_det, "array": lambda: m.array, "inv_product": lambda: m.inv @ v}[a]()
    plan = [("grad_log_abs_det", f1, lambda: m.grad_log_abs_det), ("grad_quadratic_form_inv", f2, lambda: m.grad_quadratic_form_inv(v.copy()))]
    if rng.integers(0, 2):
        plan.reverse()
    plan = plan + plan
    hist = tuple(pre) + tuple(w for w, _, _ in plan)
    obs.token("history", case["cls"], tuple(pre), plan[0][0])
    for step, (which, f, get) in enumerate(plan):
        g = get()
        if step >= 2:
            tag_h = tag + ":repeat"
        elif pre or step == 1:
            tag_h = tag + ":after-other-attributes"
        else:
            tag_h = tag
        obs.count("gradients_compared")
        obs.count(f"compared.{cname}.{which}")
        # structure
        try:
            worst, worst_info = 0.0, None
            nonfinite = False
            for d in prm.basis():
                ref = fd_dir(f, prm.p0, d)
                got = _inner(g, d)
                if not np.isfinite(got):
                    nonfinite = True
                    break
                err = abs(got - ref) / max(1.0, abs(ref))
                if err > worst:
                    worst, worst_info = err, {"got": got, "ref": ref}
        except StructureError as e:
            obs.violation(f"{which}:structure:{cname}", f"{cname}.{which}: {e}; options {prm.opts}")
            continue
        if nonfinite:
            obs.violation(f"{which}:non-finite:{tag_h}", f"{cname}.{which} contains NaN/inf; options {prm.opts}, size {n}")
            continue
        obs.maxi(f"relerr.{which}.{cname}", worst, prm.opts)
        if worst > TOL:
            obs.violation(f"{which}:mismatch:{tag_h}",
                          f"{cname}.{which} differs from finite differences of the dense formula by {worst:.3e} (rel) "
                          f"{worst_info}; options {prm.opts}, size {n}, access history {hist[:len(pre) + step + 1]}")
        if prm.space == "sym":
            ga = np.asarray(g, dtype=float)
            if np.max(np.abs(ga - ga.T)) > 1e-9 * max(1.0, np.max(np.abs(ga))):
                obs.violation(f"{which}:asymmetric:{cname}", f"{cname}.{which} is not symmetric for a symmetric parameter")
        if prm.space == "scalar" and np.ndim(g) != 0:
            obs.violation(f"{which}:structure:{cname}", f"{cname}.{which} has ndim {np.ndim(g)} for a scalar parameter")
    # the SAME vector object, updated in place between two requests (what the integrators do with state.mom while the
    # metric object stays cached): the second gradient must be the one for the vector's current contents
    vobj = v.copy()
    m2 = prm.build(prm.p0)
    _ = m2.grad_quadratic_form_inv(vobj)
    vobj *= 0.5
    vobj += rng.standard_normal(n) * 0.3
    g2 = m2.grad_quadratic_form_inv(vobj)
    vnow = vobj.copy()
    f2b = lambda p: float(vnow @ np.linalg.solve(prm.dense(p), vnow))  # noqa: E731
    obs.count("inplace_vector_checks")
    try:
        worst2 = max((abs(_inner(g2, d) - fd_dir(f2b, prm.p0, d)) / max(1.0, abs(fd_dir(f2b, prm.p0, d))) for d in prm.basis()), default=0.0)
    except StructureError:
        worst2 = 0.0  # structure already judged above
    if not np.isfinite(worst2) or worst2 > TOL:
        obs.violation(f"grad_quadratic_form_inv:mismatch:{tag}:vector-updated-in-place",
                      f"{cname}.grad_quadratic_form_inv called twice with the same vector object, updated in place in between: the second "
                      f"result differs from finite differences for the current vector by {worst2:.3e}; options {prm.opts}, size {n}")
    nontrivial = not (case["cls"] in ("scaled", "pos_scaled") and n == 1)
    if nontrivial:
        obs.token(case["cls"], prm.opts, "n1" if n == 1 else ("n2-3" if n <= 3 else "n4+"), gap)
    obs.sample({"cls": cname, "options": prm.opts, "size": n})
