"""Model zoo: targets, metrics, constraints with hand-written derivatives, and the
*independent* dense reference formulas for every mici system class.

Everything is built from a JSON-able ``spec`` so that a case descriptor replays exactly.
User model functions are wrapped so that the harness can count calls, log arguments and
inject faults (used by C12 / C18); the wrappers are the only instrumentation and sit on
the public boundary (the callables the user hands to the system constructors).
"""

from __future__ import annotations

from collections import Counter

import numpy as np
import scipy.linalg as sla

SYSTEMS = (
    "euclidean", "gaussian", "constrained", "constrained_nh", "gaussian_constrained",
    "riem_scalar", "riem_diag", "riem_chol", "riem_dense", "riem_softabs", "riem_generic",
)
TRACTABLE = ("euclidean", "gaussian", "constrained", "constrained_nh", "gaussian_constrained")
CONSTRAINED = ("constrained", "constrained_nh", "gaussian_constrained")
RIEMANNIAN = ("riem_scalar", "riem_diag", "riem_chol", "riem_dense", "riem_softabs", "riem_generic")
# metric classes / keyword options reachable only through the generic RiemannianMetricSystem(metric_matrix_class=...,
# metric_kwargs=...): upper-triangular factor, low-rank update (+/-) of a fixed matrix, rectangular-factor product
GENERIC_RIEMANNIAN = ("chol_upper", "lowrank_plus", "lowrank_minus", "dense_product", "dense_product_inner")
CONST_METRICS = (
    "none", "identity", "scaled", "diag_array", "diag", "dense_array", "dense", "chol_lower", "chol_upper", "eig",
    "block", "lowrank_plus", "lowrank_minus", "softabs_const", "product", "derived", "scaled_implicit", "identity_implicit",
)
DERIVED_BASES = ("dense", "chol_lower", "eig", "diag", "lowrank_plus", "block", "product", "softabs_const", "chol_upper")
DERIVED_TEMPLATES = [["touch", "scale"], ["touch", "div"], ["inv", "scale"], ["touch", "inv", "rscale"], ["scale", "touch", "div"],
                     ["inv", "touch", "inv"], ["touch", "rscale", "inv"], ["touch_sqrt", "inv"], ["touch_sqrt", "inv", "scale"],
                     ["touch_eig", "inv"], ["touch_sqrt", "scale"], ["touch_eig", "scale", "inv"], ["touch_sqrt", "inv", "touch", "inv"]]
CONSTRAINTS = ("hyperplane", "hyperplanes2", "sphere", "quadric", "two_quadrics", "arctan_sphere", "arctan_quadric", "sine",
               "log_sphere", "log_quadric", "exp_sphere", "exp_quadric")


def _rng(*keys) -> np.random.Generator:
    return np.random.default_rng([abs(int(k)) for k in keys])


def random_spd(rng, dim, lo=0.5, hi=2.0):
    q, _ = np.linalg.qr(rng.standard_normal((dim, dim)))
    lam = rng.uniform(lo, hi, dim)
    return (q * lam) @ q.T, q, lam


# --------------------------------------------------------------------------- targets
class Target:
    """f(q) = g(Rq),  g(x) = 1/2 x'Ax + sum_i c_i x_i^4/4 + kappa log cosh(w.x)   (linear=True: c = kappa = 0; R = I unless
    linear == "degenerate": then A, c, w are chosen so that the Hessian of g has a repeated eigenvalue wherever
    |x_0| == |x_1| while its third derivatives do not vanish there, and R is a random rotation so that the eigenvectors of
    the degenerate eigenspace are not axis aligned)."""

    def __init__(self, dim: int, rng, *, linear: bool = False) -> None:
        self.dim = dim
        self.A, _, _ = random_spd(rng, dim, 0.5, 2.0)
        if linear == "aniso":  # strongly anisotropic Gaussian: scales 1, 0.4, 0.4^2, ...
            self.A = np.diag([1.0 / (0.4**i) ** 2 for i in range(dim)])
        self.c = np.zeros(dim) if linear and linear != "degenerate" else rng.uniform(0.05, 0.5, dim)
        self.kappa = 0.0 if linear and linear != "degenerate" else 1.0
        self.w = rng.standard_normal(dim) * 0.7
        self.R = None
        if linear == "degenerate":
            a = rng.uniform(0.6, 1.8, dim)
            a[1] = a[0]
            self.A = np.diag(a)
            self.c[1] = self.c[0]
            self.w[:2] = 0.0
            self.R, _ = np.linalg.qr(rng.standard_normal((dim, dim)))

    def degenerate_point(self, rng, rel_gap: float = 0.0):
        """A position at which the Hessian has a (nearly, for rel_gap > 0) repeated eigenvalue (linear == "degenerate")."""
        x = rng.standard_normal(self.dim) * 0.8
        x[0] = float(rng.choice([-1, 1]) * rng.uniform(0.4, 1.2))
        x[1] = float(rng.choice([-1, 1])) * x[0] * (1.0 + rel_gap)
        return self.R.T @ x

    def _x(self, q):
        return np.asarray(q, dtype=float) if self.R is None else self.R @ np.asarray(q, dtype=float)

    def f(self, q):
        x = self._x(q)
        s = self.w @ x
        return 0.5 * x @ self.A @ x + np.sum(self.c * x**4) / 4 + self.kappa * (np.logaddexp(s, -s) - np.log(2))

    def grad(self, q):
        x = self._x(q)
        s = self.w @ x
        g = self.A @ x + self.c * x**3 + self.kappa * np.tanh(s) * self.w
        return g if self.R is None else self.R.T @ g

    def hess(self, q):
        x = self._x(q)
        s = self.w @ x
        h = self.A + np.diag(3 * self.c * x**2) + self.kappa / np.cosh(s) ** 2 * np.outer(self.w, self.w)
        return h if self.R is None else self.R.T @ h @ self.R

    def mtp(self, q):
        x = np.array(self._x(q), dtype=float, copy=True)  # a well-behaved user closure does not keep a reference to its argument
        s = self.w @ x
        k3 = -2 * self.kappa * np.tanh(s) / np.cosh(s) ** 2
        rot = self.R

        def mtp(m):
            if rot is not None:
                m = rot @ m @ rot.T
            v = 6 * self.c * x * np.diag(m) + k3 * (self.w @ m @ self.w) * self.w
            return v if rot is None else rot.T @ v

        return mtp


# ------------------------------------------------------------ position dependent metrics
class MetricParam:
    """Parameter function of a position-dependent metric with its Jacobian."""

    def __init__(self, kind: str, dim: int, rng) -> None:
        self.kind, self.dim = kind, dim
        if kind == "riem_scalar":
            self.b = rng.standard_normal(dim) * 0.6
        elif kind == "riem_diag":
            self.B = rng.standard_normal((dim, dim)) * 0.6
        elif kind == "riem_chol":
            self.L0 = np.tril(rng.standard_normal((dim, dim)) * 0.3) + np.diag(1.0 + rng.uniform(0, 1, dim))
            self.T = np.stack([np.tril(rng.standard_normal((dim, dim))) * (0.2 / dim) for _ in range(dim)])
            if rng.integers(0, 2):  # arbitrary data in the unused (upper) triangle of the array the user function returns
                self.L0 = self.L0 + np.triu(rng.standard_normal((dim, dim)), 1)
        elif kind == "riem_dense":
            self.M0, _, _ = random_spd(rng, dim, 1.0, 2.5)
            s = rng.standard_normal((dim, dim, dim)) * (0.25 / dim)
            self.S = (s + s.transpose(0, 2, 1)) / 2
        elif kind == "riem_generic:chol_upper":
            self.L0 = np.triu(rng.standard_normal((dim, dim)) * 0.3, 1) + np.diag(1.0 + rng.uniform(0, 1, dim))
            self.T = np.stack([np.triu(rng.standard_normal((dim, dim))) * (0.2 / dim) for _ in range(dim)])
            if rng.integers(0, 2):
                self.L0 = self.L0 + np.tril(rng.standard_normal((dim, dim)), -1)
        elif kind.startswith("riem_generic:lowrank"):
            self.r = max(1, dim // 2)
            self.base = rng.uniform(0.8, 2.0, dim)
            self.sign = 1 if kind.endswith("plus") else -1
            scale = 0.5 if self.sign == 1 else 0.12
            self.L0 = rng.standard_normal((dim, self.r)) * scale
            self.T = np.stack([rng.standard_normal((dim, self.r)) * (0.15 / dim) for _ in range(dim)])
        elif kind.startswith("riem_generic:dense_product"):
            self.k = dim + 1
            self.L0 = np.hstack([np.identity(dim) * (1.0 + rng.uniform(0, 0.5, dim)), rng.standard_normal((dim, 1)) * 0.3])
            self.T = np.stack([rng.standard_normal((dim, self.k)) * (0.15 / dim) for _ in range(dim)])
            self.inner = rng.uniform(0.6, 1.8, self.k) if kind.endswith("inner") else None
        else:
            raise ValueError(kind)

    def generic_class_and_kwargs(self):
        """(metric_matrix_class, metric_kwargs) for the generic RiemannianMetricSystem."""
        from mici import matrices as mm

        if self.kind == "riem_generic:chol_upper":
            return mm.TriangularFactoredPositiveDefiniteMatrix, {"factor_is_lower": False}
        if self.kind.startswith("riem_generic:lowrank"):
            return mm.PositiveDefiniteLowRankUpdateMatrix, {"pos_def_matrix": mm.PositiveDiagonalMatrix(self.base.copy()), "sign": self.sign}
        kw = {} if self.inner is None else {"pos_def_matrix": mm.PositiveDiagonalMatrix(self.inner.copy())}
        return mm.DensePositiveDefiniteProductMatrix, kw

    def value(self, q):
        if self.kind == "riem_scalar":
            return 1.0 + 0.5 * np.tanh(self.b @ q)
        if self.kind == "riem_diag":
            return 1.0 + 0.5 * np.tanh(self.B @ q)
        if self.kind == "riem_chol" or self.kind.startswith("riem_generic"):
            return self.L0 + np.einsum("k,kij->ij", np.tanh(q), self.T)
        return self.M0 + np.einsum("k,kij->ij", np.tanh(q), self.S)

    def vjp(self, q):
        if self.kind == "riem_scalar":
            g = 0.5 / np.cosh(self.b @ q) ** 2 * self.b
            return lambda v: v * g
        if self.kind == "riem_diag":
            jac = (0.5 / np.cosh(self.B @ q) ** 2)[:, None] * self.B
            return lambda v: v @ jac
        sech2 = 1 / np.cosh(q) ** 2
        t = self.S if self.kind == "riem_dense" else self.T
        return lambda v: np.einsum("ij,kij->k", v, t) * sech2

    def dense(self, q):
        v = self.value(q)
        if self.kind == "riem_scalar":
            return v * np.identity(self.dim)
        if self.kind == "riem_diag":
            return np.diag(v)
        if self.kind == "riem_chol":
            lo = np.tril(v)
            return lo @ lo.T
        if self.kind == "riem_generic:chol_upper":
            up = np.triu(v)
            return up @ up.T
        if self.kind.startswith("riem_generic:lowrank"):
            return np.diag(self.base) + self.sign * v @ v.T
        if self.kind.startswith("riem_generic:dense_product"):
            return v @ v.T if self.inner is None else (v * self.inner) @ v.T
        return v


def softabs_dense(hess, coeff):
    lam, vec = np.linalg.eigh(hess)
    with np.errstate(divide="ignore", invalid="ignore"):
        reg = np.where(np.abs(lam * coeff) < 1e-150, 1 / coeff, lam / np.tanh(coeff * lam))
    return (vec * reg) @ vec.T


# ------------------------------------------------------------------------ constraints
class Constraint:
    """c_i(q) = phi(g_i(q)),  g_i(q) = q'B_i q + d_i.q - e_i  (B_i symmetric; hyperplane: B = 0; sphere: B = I, d = 0).

    phi is the identity, or for the ``arctan_*`` kinds the strongly non-linear phi(x) = arctan(5 x) / 5 (same zero set,
    saturating away from it, so that Newton projections overshoot and line searches really backtrack), for the ``log_*``
    kinds phi(x) = log(1 + x) (restricted domain: NaN for x <= -1, i.e. well inside the surface) and for the ``exp_*``
    kinds phi(x) = expm1(6 x) / 6 (explosive growth outside the surface: residuals beyond any divergence tolerance, up to
    overflow, after one large step).
    """

    def __init__(self, kind: str, dim: int, rng) -> None:
        self.kind, self.dim = kind, dim
        self.arctan = kind.startswith("arctan_")
        self.phi = kind.split("_")[0] if kind.split("_")[0] in ("arctan", "log", "exp") else None
        self.sine = kind == "sine"
        if self.sine:
            # wavy curve / sheet q_1 = A sin(w q_0): a retraction along a fixed direction can land on another branch
            self.n, self.A_s, self.w_s = 1, float(rng.uniform(0.7, 1.3)), float(rng.uniform(2.0, 4.0))
            self.B, self.d, self.e = np.zeros((1, dim, dim)), np.zeros((1, dim)), np.zeros(1)
            q0 = rng.standard_normal(dim) * 0.8
            q0[1] = self.A_s * np.sin(self.w_s * q0[0])
            self.q0 = q0
            return
        base = kind[len(self.phi) + 1:] if self.phi else kind
        if base == "hyperplane":
            n = 1
        elif base in ("hyperplanes2", "two_quadrics"):
            n = 2
        else:
            n = 1
        if dim <= n:
            raise ValueError("dim too small for constraint set")
        self.n = n
        self.B = np.zeros((n, dim, dim))
        self.d = np.zeros((n, dim))
        for i in range(n):
            if base.startswith("hyperplane"):
                self.d[i] = rng.standard_normal(dim)
            elif base == "sphere":
                self.B[i] = np.identity(dim)
            else:
                b, _, _ = random_spd(rng, dim, 0.5, 1.5)
                if base == "two_quadrics" and i == 1:
                    b = b - 0.8 * np.identity(dim) * rng.uniform(0.2, 0.6)
                self.B[i] = b
                self.d[i] = rng.standard_normal(dim) * 0.3
        q0 = rng.standard_normal(dim)
        q0 *= rng.uniform(0.8, 1.5) / np.linalg.norm(q0) * np.sqrt(dim) / 1.2
        self.e = np.array([q0 @ self.B[i] @ q0 + self.d[i] @ q0 for i in range(n)])
        self.q0 = q0

    def g(self, q):
        if self.sine:
            return np.array([q[1] - self.A_s * np.sin(self.w_s * q[0])])
        return np.einsum("j,ijk,k->i", q, self.B, q) + self.d @ q - self.e

    def gjac(self, q):
        if self.sine:
            j = np.zeros((1, self.dim))
            j[0, 0] = -self.A_s * self.w_s * np.cos(self.w_s * q[0])
            j[0, 1] = 1.0
            return j
        return 2 * np.einsum("ijk,k->ij", self.B, q) + self.d

    def _phi(self, g):
        """(phi, phi', phi'') at g."""
        with np.errstate(all="ignore"):
            if self.phi == "arctan":
                return np.arctan(5 * g) / 5, 1 / (1 + 25 * g**2), -50 * g / (1 + 25 * g**2) ** 2
            if self.phi == "log":
                return np.log1p(g), 1 / (1 + g), -1 / (1 + g) ** 2
            if self.phi == "exp":
                return np.expm1(6 * g) / 6, np.exp(6 * g), 6 * np.exp(6 * g)
        return g, np.ones_like(g), np.zeros_like(g)

    def c(self, q):
        return self._phi(self.g(q))[0]

    def jac(self, q):
        gj = self.gjac(q)
        if not self.phi:
            return gj
        return gj * self._phi(self.g(q))[1][:, None]

    def hess(self, q=None):
        """(n, dim, dim) second derivatives of c at q (constant for the polynomial kinds)."""
        if self.sine:
            h = np.zeros((1, self.dim, self.dim))
            h[0, 0, 0] = self.A_s * self.w_s**2 * np.sin(self.w_s * q[0])
            return h
        if not self.phi:
            return 2 * self.B
        g, gj = self.g(q), self.gjac(q)
        _, d1, d2 = self._phi(g)
        return d1[:, None, None] * 2 * self.B + d2[:, None, None] * np.einsum("ij,ik->ijk", gj, gj)

    def mhp(self, q):
        h = self.hess(q)
        return lambda m: np.einsum("ij,ijk->k", m, h)

    def project(self, q, metric_inv=None, tol=1e-13, max_iter=100):
        """Harness-side Newton projection onto the manifold (independent of mici.solvers)."""
        minv = np.identity(self.dim) if metric_inv is None else metric_inv
        j0 = self.jac(q)
        for _ in range(max_iter):
            cv = self.c(q)
            if not np.all(np.isfinite(cv)):
                raise FloatingPointError("harness projection left the domain of the constraint")
            if np.max(np.abs(cv)) < tol:
                return q
            j = self.jac(q)
            q = q - minv @ j0.T @ np.linalg.solve(j @ minv @ j0.T, cv)
        raise FloatingPointError("harness projection did not converge")


# --------------------------------------------------------------------- constant metrics
def const_metric(kind: str, dim: int, rng):
    """Returns (argument for a mici system / mici matrix, dense array); well conditioned (cond <= 1e3) by resampling."""
    for _ in range(200):
        arg, dense = _const_metric(kind, dim, rng)
        if np.linalg.cond(dense) <= 1e3:
            return arg, dense
    return _const_metric("diag", dim, rng)


def _const_metric(kind: str, dim: int, rng):
    from mici import matrices as mm

    if kind == "none":
        return None, np.identity(dim)
    if kind == "identity":
        return mm.IdentityMatrix(dim), np.identity(dim)
    if kind == "scaled":
        s = float(rng.uniform(0.3, 3.0))
        return mm.PositiveScaledIdentityMatrix(s, dim), s * np.identity(dim)
    if kind == "scaled_implicit":  # size left implicit (documented: takes the size of what it is multiplied with)
        s = float(rng.uniform(0.3, 3.0))
        return (mm.PositiveScaledIdentityMatrix(s) if rng.integers(0, 2) else s * mm.IdentityMatrix()), s * np.identity(dim)
    if kind == "identity_implicit":
        return mm.IdentityMatrix(), np.identity(dim)
    if kind in ("diag_array", "diag"):
        d = rng.uniform(0.3, 3.0, dim)
        return (d.copy() if kind == "diag_array" else mm.PositiveDiagonalMatrix(d.copy())), np.diag(d)
    if kind in ("dense_array", "dense"):
        m, _, _ = random_spd(rng, dim, 0.4, 2.5)
        m = (m + m.T) / 2
        return (m.copy() if kind == "dense_array" else mm.DensePositiveDefiniteMatrix(m.copy())), m
    if kind in ("chol_lower", "chol_upper"):
        lo = np.tril(rng.standard_normal((dim, dim)) * 0.4) + np.diag(rng.uniform(0.7, 1.6, dim))
        # the array handed over may hold arbitrary data in its unused triangle (as LAPACK-style factors do): the class is
        # documented to use the relevant triangle only
        junk = np.triu(rng.standard_normal((dim, dim)), 1) if rng.integers(0, 2) else np.zeros((dim, dim))
        if kind == "chol_lower":
            return mm.TriangularFactoredPositiveDefiniteMatrix(lo + junk, factor_is_lower=True), lo @ lo.T
        up = lo.T.copy()
        return mm.TriangularFactoredPositiveDefiniteMatrix(up + junk.T, factor_is_lower=False), up @ up.T
    if kind == "eig":
        m, q, lam = random_spd(rng, dim, 0.4, 2.5)
        return mm.EigendecomposedPositiveDefiniteMatrix(q.copy(), lam.copy()), (q * lam) @ q.T
    if kind == "block":
        if dim < 2:
            return const_metric("diag", dim, rng)
        k = int(rng.integers(1, dim))
        a, da = const_metric(str(rng.choice(["diag", "dense", "scaled", "chol_lower", "eig"])), k, rng)
        b, db = const_metric(str(rng.choice(["diag", "dense", "identity", "chol_upper"])), dim - k, rng)
        return mm.PositiveDefiniteBlockDiagonalMatrix((a, b)), sla.block_diag(da, db)
    if kind in ("lowrank_plus", "lowrank_minus"):
        r = max(1, dim // 2) if dim > 1 else 1
        base, dbase = const_metric(str(rng.choice(["diag", "dense", "scaled"])), dim, rng)
        f = rng.standard_normal((dim, r)) * 0.5
        inner, dinner = const_metric(str(rng.choice(["diag", "dense"])), r, rng)
        sign = 1 if kind == "lowrank_plus" else -1
        if sign == -1:
            # scale factor so that base - F K F' stays well inside the PD cone
            top = np.max(np.linalg.eigvalsh(np.linalg.solve(dbase, f @ dinner @ f.T)).real)
            f *= np.sqrt(0.6 / max(top, 1e-12))
        dense = dbase + sign * f @ dinner @ f.T
        return mm.PositiveDefiniteLowRankUpdateMatrix(f.copy(), base, inner, sign=sign), dense
    if kind == "softabs_const":
        s = rng.standard_normal((dim, dim))
        s = (s + s.T) / 2
        coeff = float(rng.uniform(0.5, 3.0))
        return mm.SoftAbsRegularizedPositiveDefiniteMatrix(s.copy(), coeff), softabs_dense(s, coeff)
    if kind.startswith("derived"):
        # ("derived" = random base and operations; "derived:<base>:<op>+<op>..." = prescribed)
        # a metric written as an expression: positive multiples, quotients and inverses of a matrix object, possibly one
        # whose lazily computed factorisation is already in place when the expression is formed
        from mici import matrices as mm2

        base_kind = str(rng.choice(DERIVED_BASES))
        prescribed = None
        if ":" in kind:
            _, base_kind, opstr = kind.split(":")
            prescribed = opstr.split("+")
        m, d = _const_metric(base_kind, dim, rng)
        ops = []
        templates = DERIVED_TEMPLATES
        plan = prescribed if prescribed is not None else templates[int(rng.integers(0, len(templates)))] if rng.integers(0, 5) < 3 else \
            [str(rng.choice(["touch", "scale", "div", "inv", "rscale"])) for _ in range(int(rng.integers(1, 4)))]
        for op in plan:
            ops.append(op)
            if op == "touch":
                # a random subset, in random order, of the lazily computed representations
                names = [a for a in ("sqrt", "log_abs_det", "inv", "eigval", "eigvec", "T", "diagonal") if hasattr(type(m), a)]
                k = int(rng.integers(1, len(names) + 1))
                for a in rng.permutation(names)[:k]:
                    getattr(m, str(a))
            elif op == "touch_sqrt":
                _ = m.sqrt  # noqa: F841
            elif op == "touch_eig":
                if hasattr(type(m), "eigval"):
                    _ = m.eigval, m.eigvec  # noqa: F841
            elif op in ("scale", "rscale", "div"):
                c = float(rng.choice([0.25, 0.5, 2.0, 3.0, 4.0]))
                if op == "scale":
                    m, d = c * m, c * d
                elif op == "rscale":
                    m, d = m * c, d * c
                else:
                    m, d = m / c, d / c
            else:
                m, d = m.inv, np.linalg.inv(d)
        if not isinstance(m, mm2.PositiveDefiniteMatrix):
            raise TypeError(f"expression {ops} on {base_kind} is not a PositiveDefiniteMatrix but {type(m).__name__}")
        return m, (d + d.T) / 2
    if kind == "product":
        rect = rng.standard_normal((dim, dim + 2))
        pd, dpd = const_metric("diag", dim + 2, rng)
        return mm.DensePositiveDefiniteProductMatrix(rect.copy(), pd), rect @ dpd @ rect.T
    raise ValueError(kind)


# ------------------------------------------------------------------------------ model
class Model:
    """A mici system built from a spec, plus independent reference formulas."""

    def __init__(self, spec: dict) -> None:  # noqa: C901, PLR0912, PLR0915
        import mici

        self.spec = spec
        kind = spec["sys"]
        dim = int(spec["dim"])
        seed = spec.get("seed", 0)
        conv = spec.get("conv", {})
        rng = _rng(seed, 11)
        self.kind, self.dim = kind, dim
        self.calls: Counter = Counter()
        self.log: list | None = None  # set to [] to record (name, arg bytes)
        self.fault = None  # callable(name, call_index, out) -> out
        self.in_transition = False
        self.target = Target(dim, rng, linear=spec.get("linear", False))
        tg = self.target
        self.constraint = None
        self.metric_param = None
        self.softabs_coeff = None
        self.tractable = kind in TRACTABLE
        self.constrained = kind in CONSTRAINED
        self.riemannian = kind in RIEMANNIAN

        def wrap(name, fn):
            def wrapped(q):
                idx = self.calls[name]
                self.calls[name] += 1
                if self.log is not None:
                    self.log.append((name, np.asarray(q).tobytes()))
                out = fn(q)
                if self.fault is not None:
                    out = self.fault(name, idx, out)
                return out

            wrapped.__name__ = name
            return wrapped

        neg_log_dens = wrap("neg_log_dens", lambda q: tg.f(q))
        if conv.get("grad", 0):
            grad = wrap("grad_neg_log_dens", lambda q: (tg.grad(q), tg.f(q)))
        else:
            grad = wrap("grad_neg_log_dens", lambda q: tg.grad(q))

        if kind in TRACTABLE:
            mkind = spec.get("metric", "none")
            self.metric_arg, self.metric_dense = const_metric(mkind, dim, _rng(seed, 12))
            sc = float(spec.get("metric_scale", 1.0))
            if sc != 1.0 and isinstance(self.metric_arg, np.ndarray):
                # raw array metrics of very small / large overall scale (precision of a target with huge / tiny spread)
                self.metric_arg = self.metric_arg * sc
                self.metric_dense = self.metric_dense * sc
        if kind == "euclidean":
            self.system = mici.systems.EuclideanMetricSystem(neg_log_dens, metric=self.metric_arg, grad_neg_log_dens=grad)
        elif kind == "gaussian":
            self.system = mici.systems.GaussianEuclideanMetricSystem(
                neg_log_dens, metric=self.metric_arg, grad_neg_log_dens=grad)
        elif kind in CONSTRAINED:
            cn = Constraint(spec.get("constr", "sphere"), dim, _rng(seed, 13))
            self.constraint = cn
            constr = wrap("constr", lambda q: cn.c(q))
            if conv.get("jac", 0):
                jac = wrap("jacob_constr", lambda q: (cn.jac(q), cn.c(q)))
            else:
                jac = wrap("jacob_constr", lambda q: cn.jac(q))
            if conv.get("mhp", 0):
                mhp = wrap("mhp_constr", lambda q: (cn.mhp(q), cn.jac(q), cn.c(q)))
            else:
                mhp = wrap("mhp_constr", lambda q: cn.mhp(q))
            if kind == "gaussian_constrained":
                self.system = mici.systems.GaussianDenseConstrainedEuclideanMetricSystem(
                    neg_log_dens, constr, metric=self.metric_arg, grad_neg_log_dens=grad, jacob_constr=jac, mhp_constr=mhp)
            else:
                self.system = mici.systems.DenseConstrainedEuclideanMetricSystem(
                    neg_log_dens, constr, metric=self.metric_arg, dens_wrt_hausdorff=(kind == "constrained"),
                    grad_neg_log_dens=grad, jacob_constr=jac, mhp_constr=None if kind == "constrained" else mhp)
        elif kind == "riem_softabs":
            self.softabs_coeff = float(spec.get("softabs_coeff", 1.0))
            if conv.get("hess", 0):
                hess = wrap("hess_neg_log_dens", lambda q: (tg.hess(q), tg.grad(q), tg.f(q)))
            else:
                hess = wrap("hess_neg_log_dens", lambda q: tg.hess(q))
            if conv.get("mtp", 0):
                mtp = wrap("mtp_neg_log_dens", lambda q: (tg.mtp(q), tg.hess(q), tg.grad(q), tg.f(q)))
            else:
                mtp = wrap("mtp_neg_log_dens", lambda q: tg.mtp(q))
            self.system = mici.systems.SoftAbsRiemannianMetricSystem(
                neg_log_dens, grad_neg_log_dens=grad, hess_neg_log_dens=hess, mtp_neg_log_dens=mtp,
                softabs_coeff=self.softabs_coeff)
        elif kind == "riem_generic":
            mp = MetricParam("riem_generic:" + spec.get("generic", "chol_upper"), dim, _rng(seed, 14))
            self.metric_param = mp
            mfunc = wrap("metric_func", lambda q: mp.value(q))
            if conv.get("vjp", 0):
                vjp = wrap("vjp_metric_func", lambda q: (mp.vjp(q), mp.value(q)))
            else:
                vjp = wrap("vjp_metric_func", lambda q: mp.vjp(q))
            mcls, mkw = mp.generic_class_and_kwargs()
            self.system = mici.systems.RiemannianMetricSystem(
                neg_log_dens, mcls, mfunc, vjp_metric_func=vjp, grad_neg_log_dens=grad, metric_kwargs=mkw)
        elif kind in RIEMANNIAN:
            mp = MetricParam(kind, dim, _rng(seed, 14))
            self.metric_param = mp
            mfunc = wrap("metric_func", lambda q: mp.value(q))
            if conv.get("vjp", 0):
                vjp = wrap("vjp_metric_func", lambda q: (mp.vjp(q), mp.value(q)))
            else:
                vjp = wrap("vjp_metric_func", lambda q: mp.vjp(q))
            cls = {
                "riem_scalar": mici.systems.ScalarRiemannianMetricSystem,
                "riem_diag": mici.systems.DiagonalRiemannianMetricSystem,
                "riem_chol": mici.systems.CholeskyFactoredRiemannianMetricSystem,
                "riem_dense": mici.systems.DenseRiemannianMetricSystem,
            }[kind]
            kw = {
                "riem_scalar": ("metric_scalar_func", "vjp_metric_scalar_func"),
                "riem_diag": ("metric_diagonal_func", "vjp_metric_diagonal_func"),
                "riem_chol": ("metric_chol_func", "vjp_metric_chol_func"),
                "riem_dense": ("metric_func", "vjp_metric_func"),
            }[kind]
            self.system = cls(neg_log_dens, **{kw[0]: mfunc, kw[1]: vjp}, grad_neg_log_dens=grad)
        else:
            raise ValueError(kind)

    # ---- independent reference formulas --------------------------------------
    def ref_metric(self, q):
        if self.kind in TRACTABLE:
            return self.metric_dense
        if self.kind == "riem_softabs":
            return softabs_dense(self.target.hess(q), self.softabs_coeff)
        return self.metric_param.dense(q)

    def ref_h1(self, q):
        f = self.target.f(q)
        if self.kind in ("euclidean", "gaussian", "constrained"):
            return f
        if self.kind in ("constrained_nh", "gaussian_constrained"):
            j = self.constraint.jac(q)
            gram = j @ np.linalg.solve(self.metric_dense, j.T)
            return f + 0.5 * np.linalg.slogdet(gram)[1]
        return f + 0.5 * np.linalg.slogdet(self.ref_metric(q))[1]

    def ref_h2(self, q, p):
        kin = 0.5 * p @ np.linalg.solve(self.ref_metric(q), p)
        if self.kind in ("gaussian", "gaussian_constrained"):
            return kin + 0.5 * q @ q
        return kin

    def ref_h(self, q, p):
        return self.ref_h1(q) + self.ref_h2(q, p)

    def ref_projector(self, q):
        """Dense cotangent-space projector P with p_proj = P p."""
        j = self.constraint.jac(q)
        minv = np.linalg.inv(self.metric_dense)
        return np.identity(self.dim) - j.T @ np.linalg.solve(j @ minv @ j.T, j @ minv)

    # ---- states -----------------------------------------------------------------
    def random_point(self, rng, scale=1.0):
        """(pos, mom) valid for the system (on the manifold / cotangent space if constrained)."""
        if self.constrained:
            cn = self.constraint
            minv = np.linalg.inv(self.metric_dense)
            for _ in range(50):
                q = cn.q0 + rng.standard_normal(self.dim) * 0.3 * scale
                try:
                    q = cn.project(q, minv)
                except (FloatingPointError, np.linalg.LinAlgError):
                    continue
                j = cn.jac(q)
                if np.linalg.cond(j @ minv @ j.T) < 1e4:
                    break
            else:
                q = cn.q0.copy()
            p = np.linalg.cholesky(self.metric_dense) @ rng.standard_normal(self.dim) * scale
            p = self.ref_projector(q) @ p
            return q, p
        q = rng.standard_normal(self.dim) * scale
        p = np.linalg.cholesky(self.ref_metric(q)) @ rng.standard_normal(self.dim) * scale
        return q, p

    def state(self, q, p, direction=1):
        from mici.states import ChainState

        return ChainState(pos=np.array(q, dtype=float), mom=np.array(p, dtype=float), dir=direction)

    def used_state(self, q, p, direction=1, how="pickle"):
        """A state holding (q, p) that has a past: system methods were evaluated on it at another point (so its cache and
        dependency registry are populated), it went through copy / pickle / deepcopy, and only then was it assigned the
        requested variables.  how == "fresh" gives a newly constructed state."""
        import copy
        import pickle

        if how == "fresh":
            return self.state(q, p, direction)
        q = np.asarray(q, dtype=float)
        p = np.asarray(p, dtype=float)
        st = self.state(q + 0.3, 0.5 * p + 0.1, 1)
        for name in ("h", "dh_dpos", "dh_dmom", "h1", "dh1_dpos"):
            try:
                getattr(self.system, name)(st)
            except Exception:  # noqa: BLE001, S110 - the warm-up point is arbitrary (may be outside a solver's domain)
                pass
        if how == "copy":
            st = st.copy()
        elif how == "pickle":
            st = pickle.loads(pickle.dumps(st))  # noqa: S301
        elif how == "deepcopy":
            st = copy.deepcopy(st)
        else:
            raise ValueError(how)
        st.pos = np.array(q, dtype=float)
        st.mom = np.array(p, dtype=float)
        st.dir = direction
        return st

    def random_state(self, rng, scale=1.0, direction=1):
        q, p = self.random_point(rng, scale)
        return self.state(q, p, direction)


def make_integrator(model: Model, ispec: dict):
    """Build a mici integrator from a JSON-able spec."""
    import mici
    from mici import solvers

    kind = ispec["int"]
    eps = float(ispec["step_size"])
    sysm = model.system
    fps = {"direct": solvers.solve_fixed_point_direct, "steffensen": solvers.solve_fixed_point_steffensen}
    prs = {
        "newton": solvers.solve_projection_onto_manifold_newton,
        "quasi_newton": solvers.solve_projection_onto_manifold_quasi_newton,
        "line_search": solvers.solve_projection_onto_manifold_newton_with_line_search,
    }
    if kind == "leapfrog":
        return mici.integrators.LeapfrogIntegrator(sysm, eps)
    if kind in ("bcss2", "bcss3", "bcss4"):
        cls = {"bcss2": mici.integrators.BCSSTwoStageIntegrator, "bcss3": mici.integrators.BCSSThreeStageIntegrator,
               "bcss4": mici.integrators.BCSSFourStageIntegrator}[kind]
        return cls(sysm, eps)
    if kind == "symcomp":
        return mici.integrators.SymmetricCompositionIntegrator(
            sysm, tuple(ispec["free"]), step_size=eps, initial_h1_flow_step=bool(ispec.get("h1_first", True)))
    if kind in ("implicit_leapfrog", "implicit_midpoint"):
        cls = (mici.integrators.ImplicitLeapfrogIntegrator if kind == "implicit_leapfrog"
               else mici.integrators.ImplicitMidpointIntegrator)
        kw = {}
        if "reverse_check_tol" in ispec:
            kw["reverse_check_tol"] = ispec["reverse_check_tol"]
        skw = dict(ispec.get("solver_kwargs", {}))
        if ispec.get("norm") == "euclid":
            kw["reverse_check_norm"] = mici.solvers.euclidean_norm
            skw["norm"] = mici.solvers.euclidean_norm
        return cls(sysm, eps, fixed_point_solver=fps[ispec.get("solver", "direct")],
                   fixed_point_solver_kwargs=skw, **kw)
    if kind == "constrained":
        kw = {}
        if "reverse_check_tol" in ispec:
            kw["reverse_check_tol"] = ispec["reverse_check_tol"]
        skw = dict(ispec.get("solver_kwargs", {}))
        if ispec.get("norm") == "euclid":
            kw["reverse_check_norm"] = mici.solvers.euclidean_norm
            skw["norm"] = mici.solvers.euclidean_norm
        return mici.integrators.ConstrainedLeapfrogIntegrator(
            sysm, eps, n_inner_step=int(ispec.get("n_inner_step", 1)),
            projection_solver=prs[ispec.get("solver", "newton")],
            projection_solver_kwargs=skw, **kw)
    raise ValueError(kind)


def compatible_integrators(sys_kind: str) -> list[str]:
    if sys_kind in CONSTRAINED:
        return ["constrained"]
    if sys_kind in ("euclidean", "gaussian"):
        return ["leapfrog", "bcss2", "bcss3", "bcss4", "symcomp", "implicit_midpoint", "implicit_leapfrog"]
    return ["implicit_leapfrog", "implicit_midpoint"]


def random_sys_spec(rng, kinds=SYSTEMS, dim_range=(1, 6), metrics=CONST_METRICS) -> dict:
    kind = str(rng.choice(list(kinds)))
    lo, hi = dim_range
    spec = {"sys": kind, "seed": int(rng.integers(0, 2**31)), "conv": {k: int(rng.integers(0, 2)) for k in
                                                                      ("grad", "jac", "mhp", "vjp", "hess", "mtp")}}
    if kind in CONSTRAINED:
        constr = str(rng.choice(list(CONSTRAINTS)))
        need = 3 if constr in ("hyperplanes2", "two_quadrics") else 2
        spec["constr"] = constr
        spec["dim"] = int(rng.integers(max(lo, need), max(hi, need) + 1))
    else:
        spec["dim"] = int(rng.integers(lo, hi + 1))
    if kind in TRACTABLE:
        spec["metric"] = str(rng.choice(list(metrics)))
    if kind == "riem_softabs":
        spec["softabs_coeff"] = float(10 ** rng.uniform(-1, 1))
    if kind == "riem_generic":
        spec["generic"] = str(rng.choice(list(GENERIC_RIEMANNIAN)))
        spec["dim"] = max(spec["dim"], 2)
    return spec


def fd_grad(f, x, h=1e-5):
    """4th-order central finite-difference gradient / Jacobian of f at x (f scalar or array valued)."""
    x = np.asarray(x, dtype=float)
    cols = []
    for i in range(x.size):
        e = np.zeros_like(x)
        e.flat[i] = h
        cols.append((-np.asarray(f(x + 2 * e)) + 8 * np.asarray(f(x + e)) - 8 * np.asarray(f(x - e))
                     + np.asarray(f(x - 2 * e))) / (12 * h))
    return np.stack(cols, axis=-1)


def self_test(seed: int = 0) -> list[str]:
    """Cross-check the zoo's hand-written derivatives by finite differences. Returns list of problems."""
    problems = []
    rng = _rng(seed, 99)
    for dim in (1, 3, 4):
        tg = Target(dim, rng)
        q = rng.standard_normal(dim)
        if np.max(np.abs(fd_grad(tg.f, q) - tg.grad(q))) > 1e-7:
            problems.append("target grad")
        if np.max(np.abs(fd_grad(tg.grad, q) - tg.hess(q))) > 1e-7:
            problems.append("target hess")
        m = rng.standard_normal((dim, dim))
        ref = np.einsum("ij,ijk->k", m, fd_grad(tg.hess, q))
        if np.max(np.abs(ref - tg.mtp(q)(m))) > 1e-6:
            problems.append("target mtp")
        for kind in ("riem_scalar", "riem_diag", "riem_chol", "riem_dense", *("riem_generic:" + g for g in GENERIC_RIEMANNIAN)):
            mp = MetricParam(kind, dim, rng)
            v = rng.standard_normal(np.shape(mp.value(q)))
            jac = fd_grad(mp.value, q)
            ref = np.tensordot(v, jac, axes=np.ndim(v)) if np.ndim(v) else v * jac
            if np.max(np.abs(ref - mp.vjp(q)(v))) > 1e-7:
                problems.append(f"{kind} vjp")
            if np.min(np.linalg.eigvalsh(mp.dense(q))) <= 0.05:
                problems.append(f"{kind} not pd")
    for kind in CONSTRAINTS:
        dim = 4
        cn = Constraint(kind, dim, rng)
        q = cn.q0 + 0.1 * rng.standard_normal(dim)
        if np.max(np.abs(cn.c(cn.q0))) > 1e-12:
            problems.append(f"{kind} q0 off manifold")
        if np.max(np.abs(fd_grad(cn.c, q) - cn.jac(q))) > 1e-7:
            problems.append(f"{kind} jac")
        m = rng.standard_normal((cn.n, dim))
        ref = np.einsum("ij,ijk->k", m, fd_grad(cn.jac, q))
        if np.max(np.abs(ref - cn.mhp(q)(m))) > 1e-6:
            problems.append(f"{kind} mhp")
    return problems
