"""Random histories over ChainStates and system objects (shared by C09 and C18).

A history is a program over a small pool of states and one or two system objects of the same
class: assign a variable (new array or in-place augmented form), copy / read-only copy, pickle
round trip, call any cached or derived system method, apply a flow, drop a system object and
build another.  Two monitors ride on the same execution:

* transparency (C09): after every call the result is compared with the same call on a freshly
  constructed ChainState holding copies of the current variable values;
* economy (C18): user model functions are counted; a minimal reference cache model per
  (state object, system object) says which values were already known before each call.
"""

from __future__ import annotations

import gc
import pickle

import numpy as np

from mv import zoo

# values a user function call makes known, by return convention
PROVIDES = {
    ("neg_log_dens", 0): {"nld"}, ("neg_log_dens", 1): {"nld"},
    ("grad_neg_log_dens", 0): {"grad"}, ("grad_neg_log_dens", 1): {"grad", "nld"},
    ("constr", 0): {"constr"}, ("constr", 1): {"constr"},
    ("jacob_constr", 0): {"jac"}, ("jacob_constr", 1): {"jac", "constr"},
    ("mhp_constr", 0): {"mhp"}, ("mhp_constr", 1): {"mhp", "jac", "constr"},
    ("metric_func", 0): {"metric_func"}, ("metric_func", 1): {"metric_func"},
    ("vjp_metric_func", 0): {"vjp"}, ("vjp_metric_func", 1): {"vjp", "metric_func"},
    ("hess_neg_log_dens", 0): {"hess"}, ("hess_neg_log_dens", 1): {"hess", "grad", "nld"},
    ("mtp_neg_log_dens", 0): {"mtp"}, ("mtp_neg_log_dens", 1): {"mtp", "hess", "grad", "nld"},
}
PRIMARY = {"neg_log_dens": "nld", "grad_neg_log_dens": "grad", "constr": "constr", "jacob_constr": "jac", "mhp_constr": "mhp",
           "metric_func": "metric_func", "vjp_metric_func": "vjp", "hess_neg_log_dens": "hess", "mtp_neg_log_dens": "mtp"}
CONV_KEY = {"neg_log_dens": None, "grad_neg_log_dens": "grad", "constr": None, "jacob_constr": "jac", "mhp_constr": "mhp",
            "metric_func": None, "vjp_metric_func": "vjp", "hess_neg_log_dens": "hess", "mtp_neg_log_dens": "mtp"}
CALLABLE_VALUES = {"mhp", "vjp", "mtp"}


def methods_for(kind: str) -> list[str]:
    base = ["neg_log_dens", "grad_neg_log_dens", "h1", "h2", "h", "dh1_dpos", "dh2_dpos", "dh2_dmom", "dh_dpos", "dh_dmom"]
    if kind in zoo.CONSTRAINED:
        base += ["constr", "jacob_constr", "gram", "inv_gram", "log_det_sqrt_gram"]
        if kind != "constrained":
            base += ["grad_log_det_sqrt_gram", "mhp_constr"]
    if kind in zoo.RIEMANNIAN:
        base += ["metric_func", "vjp_metric_func", "metric"]
    if kind == "riem_softabs":
        base += ["hess_neg_log_dens", "mtp_neg_log_dens"]
    return base


def plain(x, probe=None):
    """Comparable form of a returned value (closures by their action on a probe)."""
    from mici import matrices as mm

    if isinstance(x, mm.Matrix):
        return np.array(x.array, dtype=float)
    if callable(x):
        return np.array(x(probe), dtype=float)
    return np.array(x, dtype=float)


def probe_for(model, method, rng_seed=0):
    rng = np.random.default_rng([rng_seed, 3])
    d = model.dim
    if method == "mhp_constr":
        return rng.standard_normal((model.constraint.n, d))
    if method == "mtp_neg_log_dens":
        return rng.standard_normal((d, d))
    if method == "vjp_metric_func":
        if model.kind == "riem_softabs":
            return rng.standard_normal((d, d))
        shape = np.shape(model.metric_param.value(np.zeros(d)))
        return rng.standard_normal(shape) if shape else float(rng.standard_normal())
    return None


def gen_history(rng, kind: str, length: int) -> list:
    meths = methods_for(kind)
    prog = []
    n_states = 1
    called = []
    for _ in range(length):
        r = rng.integers(0, 100)
        s = int(rng.integers(0, n_states))
        if r < 45:
            if called and rng.integers(0, 10) < 4:  # stale entries need call -> change -> same call again
                ps, pm, pw = called[int(rng.integers(0, len(called)))]
                prog.append(["call", ps if rng.integers(0, 2) else s, pm, pw])
            else:
                prog.append(["call", s, str(rng.choice(meths)), int(rng.integers(0, 2))])
            called.append((prog[-1][1], prog[-1][2], prog[-1][3]))
        elif r < 58:
            prog.append(["assign", s, str(rng.choice(["pos", "mom", "dir"])), int(rng.integers(0, 10**6))])
        elif r < 66:
            prog.append(["inplace", s, str(rng.choice(["pos", "mom"])), str(rng.choice(["scale", "shift"])), int(rng.integers(0, 10**6))])
        elif r < 78 and n_states < 5:
            prog.append(["copy", s, bool(rng.integers(0, 4) == 0)])
            n_states += 1
        elif r < 84:
            prog.append(["pickle", s])
        elif r < 92 and kind in zoo.TRACTABLE:
            prog.append(["flow", s, str(rng.choice(["h1_flow", "h2_flow"])), float(rng.uniform(-0.5, 0.5))])
        elif r < 96:
            prog.append(["newsys", int(rng.integers(0, 2))])
        else:
            prog.append(["call", s, str(rng.choice(meths)), int(rng.integers(0, 2))])
    return prog


def template_programs(kind: str, rng) -> list:
    """Directed histories: invalidate / round-trip / re-use patterns for every cached method of the class."""
    meths = methods_for(kind)
    progs = []
    for m in meths:
        for var in ("pos", "mom"):
            a1, a2 = int(rng.integers(0, 10**6)), int(rng.integers(0, 10**6))
            for trip in ("pickle", "deepcopy"):
                progs.append([["call", 0, m, 0], ["assign", 0, var, a1], [trip, 0], ["call", 0, m, 0], ["assign", 0, var, a2], ["call", 0, m, 0]])
                progs.append([["call", 0, m, 0], [trip, 0], ["assign", 0, var, a1], ["call", 0, m, 0]])
            progs.append([["call", 0, m, 0], ["assign", 0, var, a1], ["copy", 0, False], ["call", 1, m, 0], ["assign", 1, var, a2], ["call", 1, m, 0],
                          ["call", 0, m, 0]])
            progs.append([["call", 0, m, 0], ["copy", 0, False], ["assign", 0, var, a1], ["call", 1, m, 0], ["call", 0, m, 0]])
            # the method is evaluated for the first time on a read-only snapshot (optionally pickled); a writable copy of
            # the snapshot is then re-assigned and the method called again
            progs.append([["copy", 0, True], ["call", 1, m, 0], ["copy", 1, False], ["assign", 2, var, a1], ["call", 2, m, 0], ["call", 1, m, 0]])
            progs.append([["copy", 0, True], ["pickle", 1], ["call", 1, m, 0], ["copy", 1, False], ["assign", 2, var, a2], ["call", 2, m, 0],
                          ["assign", 0, var, a1], ["call", 0, m, 0]])
            # a read-only snapshot must keep its values when the state it was taken from is updated IN PLACE afterwards
            for how in ("scale", "shift"):
                progs.append([["call", 0, m, 0], ["copy", 0, True], ["inplace", 0, var, how, a1], ["call", 1, m, 0], ["call", 0, m, 0]])
    # every ordered pair of methods evaluated as cache misses right after an assignment (a method that stores auxiliary
    # values under another method's key is only wrong for the pair evaluated in that order)
    for m1 in meths:
        for m2 in meths:
            if m1 != m2:
                var = "mom" if rng.integers(0, 2) else "pos"
                progs.append([["assign", 0, var, int(rng.integers(0, 10**6))], ["call", 0, m1, 0], ["call", 0, m2, 0]])
    return progs


class Runner:
    """Executes a history on the real code while both monitors observe."""

    def __init__(self, spec: dict, obs, monitor: str) -> None:
        self.spec, self.obs, self.monitor = spec, obs, monitor
        self.models = [zoo.Model(spec), zoo.Model(dict(spec, seed=spec["seed"] + 1))]
        self.kind = spec["sys"]
        self.states = []
        self.readonly = []
        # economy model: known[(state index)][system index] = set of known values
        self.known = []
        self.id_reused = [False, False]
        self.dead_ids = set()
        self.tainted = []  # state index -> a cached array of this state (or of an ancestor) aliased another state's variable
        self.trace = []

    def fresh_state(self, st):
        from mici.states import ChainState

        return ChainState(pos=np.array(st.pos, copy=True), mom=np.array(st.mom, copy=True), dir=int(st.dir))

    def start(self, rng) -> None:
        q, p = self.models[0].random_point(rng)
        self.states.append(self.models[0].state(q, p))
        self.readonly.append(False)
        self.known.append([set(), set()])
        self.tainted.append(False)

    def scan_aliases(self) -> None:
        """Mark states whose cache holds an array that is (part of) another state's variable array."""
        for s, st in enumerate(self.states):
            if self.tainted[s]:
                continue
            others = [getattr(o, v) for j, o in enumerate(self.states) if j != s for v in ("pos", "mom")
                      if isinstance(getattr(o, v), np.ndarray)]
            for val in st._cache.values():  # noqa: SLF001
                if isinstance(val, np.ndarray) and any(np.shares_memory(val, o) for o in others):
                    self.tainted[s] = True
                    self.obs.count("alias_created")
                    break

    # ------------------------------------------------------------------ operations
    def op_call(self, s, method, which) -> None:
        model = self.models[which]
        sysm = model.system
        st = self.states[s]
        if self.kind in zoo.CONSTRAINED and which == 1:
            # the second system has a different manifold; calls are still well defined (no projection involved)
            pass
        before = dict(model.calls)
        known_before = set(self.known[s][which])
        fn = getattr(sysm, method)
        from mici.errors import LinAlgError as _MiciLinAlgError

        try:
            got = fn(st)
        except (ValueError, ArithmeticError, _MiciLinAlgError) as e:  # incl. numpy / mici LinAlgError: a user function value outside the
            # domain where the method is defined (e.g. an exponential constraint overflowing far from its manifold).
            # Transparency then means: evaluation from scratch fails in the same way.
            try:
                getattr(sysm, method)(self.fresh_state(st))
            except type(e):
                self.obs.count("calls_raising_with_and_without_cache")
                return
            self.obs.violation(f"exception-only-with-cache:{type(e).__name__}:{type(sysm).__name__}.{method}",
                               f"{method} raised {e!r} on state {s} but evaluates from scratch on the same variable values; history: {self.trace}")
            return
        evaluated = {k: model.calls[k] - before.get(k, 0) for k in model.calls if model.calls[k] - before.get(k, 0)}
        self.obs.count("calls_executed")
        if self.monitor == "c18":
            self.judge_economy(s, which, method, evaluated, known_before)
        # update the reference cache model with what the evaluations made known
        conv = self.spec.get("conv", {})
        for name in evaluated:
            ck = CONV_KEY[name]
            self.known[s][which] |= PROVIDES[(name, conv.get(ck, 0) if ck else 0)]
        if self.monitor == "c09":
            self.judge_transparency(s, which, method, got)

    def classify(self, s, which, what) -> str:
        """Mechanism key of a transparency mismatch on state s / system `which`."""
        cname = type(self.models[which].system).__name__
        st = self.states[s]
        others = [getattr(o, v) for j, o in enumerate(self.states) if j != s for v in ("pos", "mom")
                  if isinstance(getattr(o, v), np.ndarray)]
        for val in st._cache.values():  # noqa: SLF001
            if isinstance(val, np.ndarray) and any(np.shares_memory(val, o) for o in others):
                return f"cached-value-aliases-other-state-array:{cname}.{what}"
        if self.tainted[s]:  # the alias was created earlier (e.g. before a pickle round trip froze the mutated value)
            return f"cached-value-aliases-other-state-array:{cname}.{what}"
        if self.id_reused[which]:
            return f"stale-after-system-id-reuse:{cname}"
        return f"stale-cache:{cname}.{what}"

    def judge_transparency(self, s, which, method, got) -> None:
        model = self.models[which]
        st = self.states[s]
        probe = probe_for(model, method)
        ref_state = self.fresh_state(st)
        want = getattr(model.system, method)(ref_state)
        a, b = plain(got, probe), plain(want, probe)
        self.obs.count("calls_compared")
        cname = type(model.system).__name__
        if a.shape != b.shape or not np.allclose(a, b, rtol=1e-13, atol=0, equal_nan=True):
            key = self.classify(s, which, method)
            self.obs.violation(key, f"{cname}.{method} on state {s} (system {which}) returned {a!r} but evaluation from scratch on the "
                                    f"current variable values gives {b!r}; history so far: {self.trace}")
        elif not np.array_equal(a, b, equal_nan=True):
            self.obs.count("bit_level_differences")

    def judge_economy(self, s, which, method, evaluated, known_before) -> None:
        cname = type(self.models[which].system).__name__
        for name, cnt in evaluated.items():
            self.obs.count("user_evaluations")
            if cnt > 1:
                self.obs.violation(f"evaluated-twice-in-one-call:{name}:{cname}.{method}",
                                   f"user function {name} evaluated {cnt} times inside one call of {cname}.{method}; history: {self.trace}")
            if PRIMARY[name] in known_before:
                self.obs.violation(f"re-evaluated-known-value:{name}:{cname}",
                                   f"user function {name} evaluated in {cname}.{method} on state {s} although its value was already known for "
                                   f"this state (known before the call: {sorted(known_before)}); history: {self.trace}")
        if not evaluated:
            self.obs.count("calls_served_from_cache")

    def op_assign(self, s, var, seed) -> None:
        from mici.errors import ReadOnlyStateError

        st = self.states[s]
        rng = np.random.default_rng(seed)
        if var == "dir":
            val = int(rng.choice([-1, 1]))
        else:
            val = np.array(getattr(st, var), copy=True) + rng.standard_normal(self.models[0].dim) * 0.3
        if self.readonly[s]:
            try:
                setattr(st, var, val)
            except ReadOnlyStateError:
                self.obs.count("readonly_refused")
                return
            self.obs.violation("read-only-state-accepted-assignment", f"assignment to {var} of a read-only copy did not raise")
            return
        setattr(st, var, val)
        if var == "pos":
            self.known[s] = [set(), set()]

    def op_inplace(self, s, var, how, seed) -> None:
        if self.readonly[s]:
            return
        st = self.states[s]
        rng = np.random.default_rng(seed)
        if how == "scale":
            c = float(rng.uniform(0.5, 1.5))
            if var == "mom":
                st.mom *= c
            else:
                st.pos *= c
        else:
            v = rng.standard_normal(self.models[0].dim) * 0.2
            if var == "mom":
                st.mom += v
            else:
                st.pos += v
        if var == "pos":
            self.known[s] = [set(), set()]

    def op_copy(self, s, read_only) -> None:
        self.states.append(self.states[s].copy(read_only=read_only))
        self.readonly.append(read_only)
        self.known.append([set(k) for k in self.known[s]])
        self.tainted.append(self.tainted[s])

    def op_pickle(self, s) -> None:
        st2 = pickle.loads(pickle.dumps(self.states[s]))  # noqa: S301
        self.states[s] = st2
        self.known[s] = [k - CALLABLE_VALUES for k in self.known[s]]

    def op_deepcopy(self, s) -> None:
        import copy as _copy

        self.states[s] = _copy.deepcopy(self.states[s])  # goes through __getstate__: callables are not carried over
        self.known[s] = [k - CALLABLE_VALUES for k in self.known[s]]

    def op_flow(self, s, which_flow, t) -> None:
        if self.readonly[s]:
            return
        model = self.models[0]
        st = self.states[s]
        ref = self.fresh_state(st)
        before = dict(model.calls)
        known_before = set(self.known[s][0])
        from mici.errors import LinAlgError as _MiciLinAlgError

        try:
            getattr(model.system, which_flow)(st, t)
        except (ValueError, ArithmeticError, _MiciLinAlgError) as e:
            # outside the domain of a user function (see op_call): consistent iff the fresh state fails in the same way
            try:
                getattr(model.system, which_flow)(ref, t)
            except type(e):
                self.obs.count("calls_raising_with_and_without_cache")
                return
            self.obs.violation(f"exception-only-with-cache:{type(e).__name__}:{type(model.system).__name__}.{which_flow}",
                               f"{which_flow} raised {e!r} on state {s} but not on a fresh state with the same variables; history: {self.trace}")
            return
        evaluated = {k: model.calls[k] - before.get(k, 0) for k in model.calls if model.calls[k] - before.get(k, 0)}
        if self.monitor == "c18":
            self.judge_economy(s, 0, which_flow, evaluated, known_before)
        conv = self.spec.get("conv", {})
        for name in evaluated:
            ck = CONV_KEY[name]
            self.known[s][0] |= PROVIDES[(name, conv.get(ck, 0) if ck else 0)]
        getattr(model.system, which_flow)(ref, t)
        self.obs.count("flows_compared")
        if self.monitor == "c09":
            for v in ("pos", "mom"):
                if not np.allclose(getattr(st, v), getattr(ref, v), rtol=1e-13, atol=0):
                    self.obs.violation(self.classify(s, 0, which_flow),
                                       f"{which_flow}({t}) on a state with history gives {v}={getattr(st, v)!r}, on a fresh state "
                                       f"{getattr(ref, v)!r}; history: {self.trace}")
        # flows assign pos/mom: h1_flow -> mom only; h2_flow -> pos (and mom for Gaussian)
        if which_flow == "h2_flow":
            self.known[s] = [set(), set()]

    def op_newsys(self, which) -> None:
        seed = self.models[which].spec["seed"] + 7
        self.dead_ids.add(id(self.models[which].system))
        self.models[which] = None
        gc.collect()
        self.models[which] = zoo.Model(dict(self.spec, seed=seed))
        self.id_reused[which] = id(self.models[which].system) in self.dead_ids
        self.dead_ids.discard(id(self.models[1 - which].system))
        if self.id_reused[which]:
            self.obs.count("system_id_reused")
        for k in self.known:
            k[which] = set()

    def run(self, prog) -> None:
        self.trace = []
        for op in prog:
            self.trace.append(op)
            if len(self.trace) > 14:
                self.trace = self.trace[-14:]
            kind = op[0]
            if kind == "call":
                self.op_call(op[1], op[2], op[3])
            elif kind == "assign":
                self.op_assign(op[1], op[2], op[3])
            elif kind == "inplace":
                self.op_inplace(op[1], op[2], op[3], op[4])
            elif kind == "copy":
                self.op_copy(op[1], op[2])
            elif kind == "pickle":
                self.op_pickle(op[1])
            elif kind == "deepcopy":
                self.op_deepcopy(op[1])
            elif kind == "flow":
                self.op_flow(op[1], op[2], op[3])
            elif kind == "newsys":
                self.op_newsys(op[1])
            if kind in ("copy", "call", "flow"):
                self.scan_aliases()
            self.obs.count(f"op.{kind}")
