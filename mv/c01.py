"""C01 - integration transitions leave exp(-H) exactly invariant (exact kernel by enumeration).

The real ``Transition.sample(state, rng)`` is re-executed with a *scripted generator*: every
random decision the code takes (``U < p``, ``integers``, comparisons against the slice variable)
is a branch point of a depth-first path controller which multiplies the exact branch
probabilities.  Enumerating all paths from every start state of an integrator orbit gives the
exact transition matrix on the orbit, on which stationarity of exp(-H) is checked.
"""

from __future__ import annotations

import math

import numpy as np

from mv import intgen, zoo

ID = "C01"
LEVEL = "exploration"
RULE = (
    "each case is one configuration (real zoo system + real integrator recorded as an orbit and replayed, or a "
    "table-driven orbit double with ties / infinite / NaN energies, symmetric step failures of each IntegratorError "
    "class and random termination tables; transition kind static / random Metropolis, multinomial, slice; step size "
    "0.05-1.6 of the local period scale; max_tree_depth 1-3 (4 thorough); both termination criteria; both settings of "
    "do_extra_subtree_checks; max_delta_h 0.1-1000). For every start state in the source window of the judged end "
    "states ALL outcomes of the internal random draws are enumerated with exact probabilities (total mass must be 1 to "
    "1e-12) and sum_i pi_i P(i->j) = pi_j is required to 1e-9 relative; on every path n_step must equal the number of "
    "integrator steps that returned and accept_stat the recomputed mean Metropolis probability (0 with an error flag). "
    "distinct_nontrivial = distinct (transition kind, source kind, system/double flavour, integrator, depth or step "
    "count, criterion, extra checks, step-size class, max_delta_h class) configurations whose balance was decided."
)
ASSUMPTIONS = [
    "real implicit / constrained (and by default all) integrators are recorded once as an orbit and replayed through a "
    "table integrator, so solver noise between forward and backward passes cannot appear as imbalance; the 'direct' "
    "source drives explicit integrators live and identifies states by position",
    "tree depth <= 3 (quick) / 4 (thorough); deeper trees run the same recursion but were not enumerated",
    "Metropolis transitions are judged on the joint (state, direction) space with uniform direction; dynamic ones on the "
    "(q, p) marginal because they resample the direction",
]
REQUIRED = {"configs_decided": 30, "paths_enumerated": 20000, "stat_checks": 20000}
BUDGET_S = {"quick": 240, "thorough": 1500}
PATH_CAP = {"quick": 60000, "thorough": 120000}
BAL_TOL = 1e-9


# ----------------------------------------------------------------------- scripted generator
class PathCap(Exception):
    _mv_harness = True


class Controller:
    """Depth-first enumeration of decision paths with exact probabilities."""

    def __init__(self) -> None:
        self.prefix: list[int] = []
        self.reset()

    def reset(self) -> None:
        self.pos = 0
        self.prob = 1.0
        self.taken: list[tuple[int, int]] = []  # (choice, n_choices)
        self.kinds: list[str] = []

    def branch(self, probs: list[float], kind: str) -> int:
        """Choose among outcomes with the given probabilities (zero-probability outcomes are skipped)."""
        live = [i for i, p in enumerate(probs) if p > 0.0]
        if len(live) == 1:
            return live[0]
        if self.pos < len(self.prefix):
            k = self.prefix[self.pos]
        else:
            k = 0
            self.prefix.append(0)
        self.taken.append((k, len(live)))
        self.kinds.append(kind)
        self.pos += 1
        self.prob *= probs[live[k]]
        return live[k]

    def advance(self) -> bool:
        """Move to the next unexplored path; False when the enumeration is complete."""
        taken = self.taken
        while taken and taken[-1][0] + 1 >= taken[-1][1]:
            taken.pop()
        if not taken:
            return False
        self.prefix = [k for k, _ in taken]
        self.prefix[-1] += 1
        return True


class U:
    """Symbolic Uniform(0,1) variate returned by the scripted generator."""

    def __init__(self, ctl: Controller) -> None:
        self.ctl = ctl
        self.used = False

    def _p(self, other) -> float:
        from mici.utils import LogRepFloat

        if isinstance(other, LogRepFloat):
            p = math.exp(other.log_val) if other.log_val < 700 else math.inf
        else:
            p = float(other)
        if p != p:
            return 0.0
        return min(max(p, 0.0), 1.0)

    def __lt__(self, other) -> bool:
        if self.used:
            e = RuntimeError("a uniform variate was compared twice")
            e._mv_harness = True  # noqa: SLF001
            raise e
        self.used = True
        p = self._p(other)
        kind = "direction" if (not hasattr(other, "log_val") and float(other) == 0.5) else "accept"
        return self.ctl.branch([p, 1.0 - p], kind) == 0

    def log(self):
        self.used = True
        sl = self.ctl.slice = Slice(self.ctl)
        return LogU(sl, 0.0)

    def __float__(self):
        e = RuntimeError("transition code converted a uniform variate to float (unsupported by the scripted generator)")
        e._mv_harness = True  # noqa: SLF001
        raise e


class Slice:
    def __init__(self, ctl) -> None:
        self.ctl, self.lo, self.hi = ctl, 0.0, 1.0

    def decide_le(self, t: float) -> bool:
        """Is u <= t ?  (u uniform on the current interval)."""
        if t != t:
            return False
        if t >= self.hi:
            return True
        if t <= self.lo:
            return False
        p = (t - self.lo) / (self.hi - self.lo)
        if self.ctl.branch([p, 1.0 - p], "slice-split") == 0:
            self.hi = t
            return True
        self.lo = t
        return False


def _exp(x: float) -> float:
    if x != x:
        return math.nan
    return math.inf if x > 700 else math.exp(x)


class LogU:
    """log(u) + a for the slice variable u."""

    __array_ufunc__ = None

    def __init__(self, sl: Slice, a: float) -> None:
        self.sl, self.a = sl, float(a)

    def __add__(self, x):
        return LogU(self.sl, self.a + float(x))

    __radd__ = __add__

    def __sub__(self, x):
        return LogU(self.sl, self.a - float(x))

    # comparisons return numpy booleans, as the comparison of the real float64 slice variable with a float64 energy does
    # (numpy booleans add as logical OR, Python booleans as integers: code relying on either shows under the real types)
    def __le__(self, x):  # log u + a <= x  <=>  u <= exp(x - a)
        return np.bool_(self.sl.decide_le(_exp(float(x) - self.a)))

    def __lt__(self, x):
        return self.__le__(x)

    def __gt__(self, x):
        x = float(x) - self.a
        if x != x:
            return np.bool_(False)
        return np.bool_(not self.sl.decide_le(_exp(x)))

    def __ge__(self, x):
        return self.__gt__(x)

    def __str__(self) -> str:
        return f"log(u)+{self.a}"

    __repr__ = __str__

    def __format__(self, spec) -> str:
        return str(self)


class ScriptedRng:
    def __init__(self, ctl: Controller) -> None:
        self.ctl = ctl

    def uniform(self, *a, **k):
        if a or k:
            e = RuntimeError("uniform called with arguments")
            e._mv_harness = True  # noqa: SLF001
            raise e
        return U(self.ctl)

    def integers(self, low, high=None, *a, **k):  # noqa: ARG002
        if high is None:
            low, high = 0, low
        n = int(high) - int(low)
        return int(low) + self.ctl.branch([1.0 / n] * n, "integer")


# ------------------------------------------------------------------------------ orbits
class ReplayIntegrator:
    """Integrator double replaying a recorded orbit: step(state) -> state of index +- 1."""

    def __init__(self, system, orbit, step_size, failing=None) -> None:
        self.system, self.orbit, self.step_size = system, orbit, step_size
        self.failing = failing or {}
        self.calls_returned = 0
        self.raised: list[str] = []
        self.visited: list[int] = []

    def step(self, state):
        from mici import errors
        from mici.states import ChainState

        i = int(state.idx)
        j = i + int(state.dir)
        edge = (min(i, j), max(i, j))
        if edge in self.failing:
            name = self.failing[edge]
            self.raised.append(name)
            raise getattr(errors, name)(f"injected failure across edge {edge}")
        if j not in self.orbit:
            e = RuntimeError(f"orbit window too small: index {j} requested")
            e._mv_harness = True  # noqa: SLF001
            raise e
        q, p = self.orbit[j]
        self.calls_returned += 1
        self.visited.append(j)
        return ChainState(pos=q.copy(), mom=p.copy(), dir=int(state.dir), idx=j)


class TableSystem:
    """System double: energies from a table (ties, inf, NaN allowed)."""

    def __init__(self, energies: dict) -> None:
        self.energies = energies

    def h(self, state):
        return self.energies[int(state.idx)]

    def dh_dmom(self, state):
        return np.asarray(state.mom)


class TableCriterion:
    def __init__(self, table: dict) -> None:
        self.table = table

    def __call__(self, system, state_1, state_2, sum_mom):  # noqa: ARG002
        return self.table.get((int(state_1.idx), int(state_2.idx)), False)


def gen_cases(tier: str, seed: int):
    n = {"quick": 96, "thorough": 1000}[tier]
    rng = np.random.default_rng([seed, 1])
    maxd = {"quick": 3, "thorough": 4}[tier]
    # directed family: anisotropic Gaussian targets, depth 3, overlapping sub-tree checks on -- configurations in which a
    # 4-state tree passes the whole-tree criterion but an overlapping 3-state check fires (the doubling logic's hard case)
    k = 0
    for crit in ("euclidean", "riemannian"):
        for frac in (0.5, 0.75, 1.0, 1.25, 1.6):
            for tk in ("multinomial", "slice"):
                k += 1
                yield {"transition": tk, "source": "real", "seed": [seed, 7000 + k], "depth": 3, "extra_checks": True,
                       "max_delta_h": 1000.0, "criterion": crit, "frac": frac,
                       "spec": {"sys": "euclidean", "dim": 2, "seed": 50 + k % 4, "linear": "aniso", "metric": "none", "conv": {}},
                       "ispec": {"int": "leapfrog", "tight": True}}
    # directed family: Metropolis transitions on table doubles whose integrator fails on some edges (a failure on the first
    # step of a trajectory must still leave exp(-H) invariant on (position, momentum, direction))
    for j in range({"quick": 12, "thorough": 120}[tier]):
        case = {"transition": ["static", "random"][j % 2], "source": "double", "flavour": ["failures", "mixed"][(j // 2) % 2],
                "seed": [seed, 8000 + j]}
        if case["transition"] == "static":
            case["n_step"] = 1 + j % 3
        else:
            case["n_step_range"] = [1, 2 + j % 3]
        yield case
    for i in range(n):
        tkind = ["static", "random", "multinomial", "slice", "multinomial", "slice"][i % 6]
        source = ["real", "double", "real", "double", "direct"][i % 5]
        case = {"transition": tkind, "source": source, "seed": [seed, int(rng.integers(0, 2**31))]}
        if tkind in ("multinomial", "slice"):
            case["depth"] = int(rng.integers(1, 4)) if i % 10 else maxd
            case["extra_checks"] = bool(rng.integers(0, 2))
            # the multinomial divergence test is relative to the start state's energy, so exact invariance is only claimed
            # (and only holds) when it cannot trigger between finite-energy states; the slice test is start independent
            case["max_delta_h"] = float(rng.choice([0.1, 0.5, 2.0, 10.0, 1000.0])) if tkind == "slice" else 1000.0
            case["criterion"] = str(rng.choice(["euclidean", "riemannian"]))
        elif tkind == "static":
            case["n_step"] = int(rng.integers(1, 7))
        else:
            lo = int(rng.integers(1, 5))
            case["n_step_range"] = [lo, int(rng.integers(lo + 1, 8))]
        if source in ("real", "direct"):
            kinds = ("euclidean", "gaussian") if source == "direct" else ("euclidean", "gaussian", "riem_scalar", "riem_diag", "constrained", "riem_softabs", "constrained_nh")
            k = str(rng.choice(kinds))
            spec = zoo.random_sys_spec(rng, kinds=(k,), dim_range=(1, 3))
            if rng.integers(0, 3) == 0:
                spec["linear"] = True
            ik = str(rng.choice(["leapfrog", "bcss2", "bcss3"])) if k in ("euclidean", "gaussian") else str(rng.choice(zoo.compatible_integrators(k)))
            case["spec"] = spec
            case["ispec"] = intgen.random_int_spec(rng, k, tight=True, kinds=(ik,))
            case["frac"] = float(np.exp(rng.uniform(np.log(0.05), np.log(1.6 if k in ("euclidean", "gaussian") else 0.5))))
            if source == "direct" and case.get("depth", 0) > 2:
                case["depth"] = 2
        else:
            case["flavour"] = str(rng.choice(["smooth", "ties", "inf", "nan", "failures", "mixed"]))
        yield case


# ---------------------------------------------------------------------------- the check
def build_orbit_real(m, integ, q, p, lo, hi):
    """Record orbit indices lo..hi with the real integrator (0 = start)."""
    from mici.errors import IntegratorError

    orbit = {0: (np.array(q), np.array(p))}
    for direction, end in ((1, hi), (-1, lo)):
        st = m.state(q, p, direction)
        i = 0
        while i != end:
            try:
                st = integ.step(st)
            except IntegratorError:
                return orbit, (min(orbit), max(orbit))
            i += direction
            if not (np.all(np.isfinite(st.pos)) and np.all(np.isfinite(st.mom))) or np.max(np.abs(st.pos)) > 1e6:
                return orbit, (min(orbit), max(orbit))
            orbit[i] = (np.array(st.pos), np.array(st.mom))
    return orbit, (lo, hi)


def make_transition(case, system, integ, criterion=None):
    from mici import transitions as tr

    k = case["transition"]
    if k == "static":
        return tr.MetropolisStaticIntegrationTransition(system, integ, n_step=case["n_step"])
    if k == "random":
        return tr.MetropolisRandomIntegrationTransition(system, integ, n_step_range=tuple(case["n_step_range"]))
    crit = criterion or {"euclidean": tr.euclidean_no_u_turn_criterion, "riemannian": tr.riemannian_no_u_turn_criterion}[case["criterion"]]
    cls = tr.MultinomialDynamicIntegrationTransition if k == "multinomial" else tr.SliceDynamicIntegrationTransition
    return cls(system, integ, max_tree_depth=case["depth"], max_delta_h=case["max_delta_h"], termination_criterion=crit,
               do_extra_subtree_checks=case["extra_checks"])


def reach(case) -> int:
    k = case["transition"]
    if k == "static":
        return case["n_step"]
    if k == "random":
        return case["n_step_range"][1] - 1
    return 2 ** case["depth"] - 1


def run_case(case, obs) -> None:  # noqa: C901, PLR0912, PLR0915
    from mici.states import ChainState

    rng = np.random.default_rng([abs(int(s)) for s in case["seed"]])
    tkind = case["transition"]
    dynamic = tkind in ("multinomial", "slice")
    r = reach(case)
    n_targets = 3
    # judged end states: indices 0..n_targets-1; sources: [-r, n_targets-1+r]; orbit: [-2r, n_targets-1+2r]
    src_lo, src_hi = -r, n_targets - 1 + r
    orb_lo, orb_hi = -2 * r - 1, n_targets + 2 * r
    tier = "thorough" if case.get("depth", 0) >= 4 else "quick"
    direct = case["source"] == "direct"
    criterion = None
    failing = {}
    if case["source"] in ("real", "direct"):
        spec, ispec = case["spec"], dict(case["ispec"])
        m = zoo.Model(spec)
        q, p = m.random_point(rng)
        eps = case["frac"] / intgen.frequency(m, q)
        ispec["step_size"] = eps
        real_integ = zoo.make_integrator(m, ispec)
        orbit, (got_lo, got_hi) = build_orbit_real(m, real_integ, q, p, orb_lo, orb_hi)
        if got_lo > orb_lo or got_hi < orb_hi:
            obs.inconc("orbit-could-not-be-recorded (integrator failed or diverged)")
            return
        system = m.system
        energies = {}
        for i, (qq, pp) in orbit.items():
            energies[i] = float(system.h(m.state(qq, pp)))
        if direct:
            pts = np.array([orbit[i][0] for i in sorted(orbit)])
            dmin = min(np.max(np.abs(pts[a] - pts[b])) for a in range(len(pts)) for b in range(a))
            if dmin < 1e-6:
                obs.inconc("orbit-positions-not-distinct")
                return
            integ = real_integ
        else:
            integ = ReplayIntegrator(system, orbit, eps)
        flavour = spec["sys"] + ("-linear" if spec.get("linear") else "")
        iname = ispec["int"]
    else:
        flavour = case["flavour"]
        iname = "table"
        idxs = range(orb_lo, orb_hi + 1)
        e0 = rng.normal(0, 1.0, len(idxs)).cumsum() * 0.5 if rng.integers(0, 2) else rng.normal(0, 1.5, len(idxs))
        energies = {i: float(e) for i, e in zip(idxs, e0)}
        if flavour in ("ties", "mixed"):
            for i in idxs:
                energies[i] = float(np.round(energies[i]))
        if flavour in ("inf", "mixed"):
            for i in rng.choice(list(idxs), size=max(1, len(idxs) // 8), replace=False):
                energies[int(i)] = math.inf
        if flavour in ("nan", "mixed"):
            for i in rng.choice(list(idxs), size=max(1, len(idxs) // 10), replace=False):
                energies[int(i)] = math.nan
        if flavour in ("failures", "mixed"):
            names = ["ConvergenceError", "NonReversibleStepError", "IntegratorError", "HamiltonianDivergenceError"]
            for i in rng.choice(list(idxs)[:-1], size=max(1, len(idxs) // 8), replace=False):
                failing[(int(i), int(i) + 1)] = str(rng.choice(names))
        orbit = {i: (np.array([float(i)]), np.array([1.0 + 0.01 * i])) for i in idxs}
        system = TableSystem(energies)
        integ = ReplayIntegrator(system, orbit, 0.25, failing)
        if dynamic:
            table = {}
            dens = float(rng.choice([0.0, 0.05, 0.2]))
            for a in idxs:
                for b in idxs:
                    if a < b and rng.random() < dens:
                        table[(a, b)] = True
            criterion = TableCriterion(table)
    tr = make_transition(case, system, integ, criterion)
    finite = [e for e in energies.values() if e == e and abs(e) != math.inf]
    if not finite:
        obs.inconc("no-finite-energy")
        return
    hmin = min(finite)
    pi = {i: (0.0 if (e != e or e == math.inf) else math.exp(-(e - hmin))) for i, e in energies.items()}

    # live step counting for the direct source
    step_counter = {"n": 0}
    if direct:
        real_step = integ.step

        def counted(st):
            out = real_step(st)
            step_counter["n"] += 1
            return out

        integ.step = counted
        pts_idx = sorted(orbit)
        pts_arr = np.array([orbit[i][0] for i in pts_idx])

    def identify(state):
        if not direct:
            return int(state.idx)
        d = np.max(np.abs(pts_arr - np.asarray(state.pos)), axis=1)
        k = int(np.argmin(d))
        if d[k] > 1e-8 * (1 + np.max(np.abs(pts_arr))):
            e = RuntimeError(f"returned position matches no orbit point (distance {d[k]:.2e})")
            e._mv_harness = True  # noqa: SLF001
            raise e
        return pts_idx[k]

    dirs = (1, -1) if not dynamic else (1,)
    kernel = {}  # (i, d) -> {(j, e): prob}
    total_paths = 0
    cap = PATH_CAP[tier]
    for i in range(src_lo, src_hi + 1):
        for d in dirs:
            if pi[i] == 0.0:
                kernel[(i, d)] = {}
                continue
            ctl = Controller()
            dist = {}
            mass = 0.0
            while True:
                ctl.reset()
                if not direct:
                    integ.calls_returned = 0
                    integ.raised = []
                    integ.visited = []
                step_counter["n"] = 0
                q0, p0 = orbit[i]
                kw = {} if direct else {"idx": i}
                st = ChainState(pos=q0.copy(), mom=p0.copy(), dir=d, **kw)
                new_state, stats = tr.sample(st, ScriptedRng(ctl))
                j = identify(new_state)
                key = (j, int(new_state.dir)) if not dynamic else (j, 0)
                dist[key] = dist.get(key, 0.0) + ctl.prob
                mass += ctl.prob
                total_paths += 1
                obs.count("paths_enumerated")
                for kd in ctl.kinds:
                    obs.count(f"decision.{kd}")
                check_stats(obs, case, stats, energies, i, step_counter["n"] if direct else integ.calls_returned,
                            [] if direct else integ.raised, flavour, None if direct else integ.visited)
                if total_paths > cap:
                    obs.inconc("path-cap-reached")
                    return
                if not ctl.advance():
                    break
            if abs(mass - 1.0) > 1e-10:
                obs.inconc(f"path-probabilities-sum-to-{mass:.6f}")
                obs.sample({"mass_problem": mass, "case": case, "start": i})
                return
            obs.maxi("mass_error", abs(mass - 1.0))
            kernel[(i, d)] = dist
    # ------------------------------------------------------------------ balance
    worst = 0.0
    for j in range(n_targets):
        for e in (dirs if not dynamic else (0,)):
            inflow = 0.0
            for (i, d), dist in kernel.items():
                inflow += pi[i] * (0.5 if not dynamic else 1.0) * dist.get((j, e), 0.0)
            target = pi[j] * (0.5 if not dynamic else 1.0)
            err = abs(inflow - target) / max(target, 1e-300) if target > 0 else abs(inflow)
            worst = max(worst, err)
            obs.count("balance_equations")
            if err > BAL_TOL:
                obs.violation(f"not-stationary:{tkind}",
                              f"sum_i pi_i P(i->j) = {inflow!r} but pi_j = {target!r} (rel. defect {err:.3e}) for end state j={j}"
                              f"{'' if dynamic else f' dir={e}'}; config={ {k: v for k, v in case.items() if k != 'seed'} } flavour={flavour}")
    obs.count("configs_decided")
    obs.maxi(f"balance_defect.{tkind}", worst, {"flavour": flavour})
    fc = "n/a" if "frac" not in case else ("small" if case["frac"] < 0.2 else ("mid" if case["frac"] < 0.8 else "large"))
    obs.token(tkind, case["source"], flavour, iname, case.get("depth", case.get("n_step", tuple(case.get("n_step_range", ())))),
              case.get("criterion"), case.get("extra_checks"), fc, case.get("max_delta_h"))
    obs.sample({"config": {k: v for k, v in case.items() if k != "seed"}, "paths": total_paths, "worst_balance_defect": worst,
                "starts": (src_hi - src_lo + 1) * len(dirs)})


def _mh(h0, h):
    if h != h:
        h = math.inf
    d = h0 - h
    if d != d:
        return 0.0
    return math.exp(min(0.0, d))


def check_stats(obs, case, stats, energies, start, n_returned, raised, flavour, visited=None) -> None:
    """n_step and accept_stat reported by the transition vs what the monitor counted on this path."""
    obs.count("stat_checks")
    tkind = case["transition"]
    if int(stats["n_step"]) != n_returned:
        obs.violation(f"n_step-wrong:{tkind}", f"transition reports n_step={stats['n_step']} but {n_returned} integrator steps returned "
                                               f"(start {start}, flavour {flavour}, config { {k: v for k, v in case.items() if k != 'seed'} })")
    flags = [k for k in ("diverging", "convergence_error", "non_reversible_step") if stats.get(k)]
    want_flag = {"ConvergenceError": "convergence_error", "NonReversibleStepError": "non_reversible_step",
                 "HamiltonianDivergenceError": "diverging"}
    for name in raised:
        f = want_flag.get(name)
        if f is not None and not stats.get(f):
            obs.violation(f"error-flag-missing:{f}:{tkind}", f"a step raised {name} but statistic {f} is not set (start {start}, flavour {flavour})")
    acc = float(stats["accept_stat"])
    if flags and acc != 0.0:
        obs.violation(f"accept_stat-nonzero-with-error:{tkind}", f"accept_stat={acc} although {flags} (start {start}, flavour {flavour})")
    if visited is not None and not flags and not raised:
        h0 = energies[start]
        if tkind in ("static", "random"):
            want = _mh(h0, energies[visited[-1]]) if visited else 0.0
        else:
            want = sum(_mh(h0, energies[k]) for k in visited) / len(visited) if visited else 0.0
        obs.count("accept_stat_recomputed")
        if abs(acc - want) > 1e-12 * max(1.0, want):
            obs.violation(f"accept_stat-wrong:{tkind}", f"accept_stat={acc!r} but the mean Metropolis acceptance probability of the "
                                                        f"{len(visited)} visited states is {want!r} (start {start}, flavour {flavour})")
    if not (0.0 <= acc <= 1.0):
        obs.violation(f"accept_stat-out-of-range:{tkind}", f"accept_stat={acc}")


def shard_setup(obs) -> None:
    from mv import common

    common.setup_paths()
