#!/bin/bash
# tools/mutant.sh <patch.diff> <Cxx> [Cyy ...]   -- run quick checks against a scratch worktree of /repo with the patch applied
# (MV_REPO points the same checks at the scratch copy; /repo itself is never touched; evidence/ is restored afterwards)
set -u
patch=$(readlink -f "$1"); shift
wt=$(mktemp -d /tmp/mvmut-XXXXXX); rmdir "$wt"
git -C /repo worktree add -q --detach "$wt" HEAD || exit 2
cd "$wt" && git apply "$patch" || { echo "PATCH DOES NOT APPLY"; git -C /repo worktree remove --force "$wt"; exit 2; }
cd /verif
tier=${MUT_TIER:-quick}
for c in "$@"; do
  out=$(MV_REPO="$wt" timeout 1800 ./check "$c" $tier 2>&1)
  rc=$?
  echo "== $c rc=$rc $(echo "$out" | grep -E "^$c $tier" | cut -c1-120)"
  echo "$out" | grep -E "^VIOLATION|^INCONCLUSIVE" | sed 's/replay=[^ ]*//' | cut -c1-160 | sort | uniq -c | sort -rn | head -${MUT_LINES:-4}
done
git -C /repo worktree remove --force "$wt"
