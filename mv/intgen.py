"""Generators of (system, integrator) configurations and reference flows (C02/C03/C04/C06/C01/C12)."""

from __future__ import annotations

import numpy as np

from mv import zoo

FP_SOLVERS = ("direct", "steffensen")
PR_SOLVERS = ("newton", "quasi_newton", "line_search")


def frequency(model: zoo.Model, q, curvature: bool = True) -> float:
    """Largest local frequency sqrt(max eig(M^-1 Hess)) of the independent Hamiltonian at q."""
    h = model.target.hess(q)
    if model.kind in ("gaussian", "gaussian_constrained"):
        h = h + np.identity(model.dim)
    m = model.ref_metric(q)
    lam = np.linalg.eigvals(np.linalg.solve(m, h)).real
    w2 = max(np.max(np.abs(lam)), 1e-3)
    if model.constrained and curvature:
        # curvature of the constraint manifold (rate at which a unit-speed curve turns): |Hess_i| / |J_i|
        cn = model.constraint
        j, hs = cn.jac(q), cn.hess(q)
        kappa = max(np.linalg.norm(hs[i], 2) / max(np.linalg.norm(j[i]), 1e-12) for i in range(cn.n))
        w2 += kappa**2
    return float(np.sqrt(w2))


def random_int_spec(rng, sys_kind: str, *, tight: bool | None = None, kinds=None) -> dict:
    pool = list(kinds) if kinds is not None else zoo.compatible_integrators(sys_kind)
    kind = str(rng.choice(pool))
    spec: dict = {"int": kind}
    if tight is None:
        tight = bool(rng.integers(0, 2))
    if kind == "symcomp":
        n_free = int(rng.integers(0, 8))
        spec["free"] = [float(x) for x in rng.uniform(-0.15, 0.45, n_free)]
        spec["h1_first"] = bool(rng.integers(0, 2))
    elif kind in ("implicit_leapfrog", "implicit_midpoint"):
        spec["solver"] = str(rng.choice(FP_SOLVERS))
        if tight:
            spec["solver_kwargs"] = {"convergence_tol": 1e-13, "max_iters": 500}
            spec["reverse_check_tol"] = 1e-9
    elif kind == "constrained":
        spec["solver"] = str(rng.choice(PR_SOLVERS))
        spec["n_inner_step"] = int(rng.integers(1, 5))
        if tight:
            spec["solver_kwargs"] = {"constraint_tol": 1e-13, "position_tol": 1e-12, "max_iters": 100}
            spec["reverse_check_tol"] = 1e-9
    spec["tight"] = bool(tight)
    if kind in ("implicit_leapfrog", "implicit_midpoint", "constrained") and rng.integers(0, 4) == 0:
        spec["norm"] = "euclid"  # documented alternative norm for convergence and reversibility tests
    return spec


def frac_range(sys_kind: str, int_kind: str) -> tuple[float, float]:
    """Range of step size * local frequency explored."""
    if sys_kind in zoo.RIEMANNIAN:
        return (0.003, 0.6)
    if sys_kind in zoo.CONSTRAINED:
        return (0.003, 0.9)
    if int_kind.startswith("implicit"):
        return (0.003, 0.8)
    return (0.003, 1.3)


def stages(ispec: dict) -> int:
    k = ispec["int"]
    if k == "symcomp":
        return len(ispec["free"]) + 1
    return {"bcss2": 2, "bcss3": 3, "bcss4": 4}.get(k, 1)


def snapshot(state) -> tuple:
    return (np.asarray(state.pos).tobytes(), np.asarray(state.mom).tobytes(), int(state.dir))


# ------------------------------------------------------------------ reference flows
def hamilton_rhs(model: zoo.Model):
    """dz/dt for the independent Hamiltonian (unconstrained or index-reduced constrained)."""
    dim = model.dim
    fd = zoo.fd_grad

    def grad_h1(q):
        if model.kind in ("euclidean", "gaussian", "constrained"):
            return model.target.grad(q)
        return fd(model.ref_h1, q, 1e-4)

    if not model.constrained:
        if model.kind in ("euclidean", "gaussian"):
            minv = np.linalg.inv(model.metric_dense)
            gq = (lambda q: q) if model.kind == "gaussian" else (lambda q: 0.0)

            def rhs(t, z):  # noqa: ARG001
                q, p = z[:dim], z[dim:]
                return np.concatenate([minv @ p, -(model.target.grad(q) + gq(q))])

            return rhs

        def rhs(t, z):  # noqa: ARG001
            q, p = z[:dim], z[dim:]
            dq = np.linalg.solve(model.ref_metric(q), p)
            dp = -fd(lambda x: model.ref_h(x, p), q, 1e-4)
            return np.concatenate([dq, dp])

        return rhs
    cn = model.constraint
    minv = np.linalg.inv(model.metric_dense)
    gauss = model.kind == "gaussian_constrained"

    def rhs(t, z):  # noqa: ARG001
        q, p = z[:dim], z[dim:]
        v = minv @ p
        force = -grad_h1(q) - (q if gauss else 0.0)
        j = cn.jac(q)
        curv = np.einsum("j,ijk,k->i", v, cn.hess(q), v)
        lam = np.linalg.solve(j @ minv @ j.T, curv + j @ minv @ force)
        return np.concatenate([v, force - j.T @ lam])

    return rhs


def exact_flow(model: zoo.Model, q, p, t: float):
    from scipy.integrate import solve_ivp

    sol = solve_ivp(hamilton_rhs(model), (0.0, t), np.concatenate([q, p]), method="DOP853", rtol=1e-12, atol=1e-14)
    if not sol.success:
        raise FloatingPointError("reference ODE solve failed")
    z = sol.y[:, -1]
    return z[: model.dim], z[model.dim:]
