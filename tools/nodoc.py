"""print a python file without docstrings: nodoc.py file [start] [end]"""
import sys
src=open(sys.argv[1]).read().split('\n')
a=int(sys.argv[2]) if len(sys.argv)>2 else 1
b=int(sys.argv[3]) if len(sys.argv)>3 else len(src)
indoc=False
for i,l in enumerate(src,start=1):
    s=l.strip()
    if indoc:
        if '"""' in s: indoc=False
        continue
    if s.startswith(('"""','r"""')):
        if s.count('"""')==1: indoc=True
        continue
    if a<=i<=b: print(f"{i}\t{l}")
