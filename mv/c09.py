"""C09 - state-level caching is transparent: cached results equal from-scratch results."""

from __future__ import annotations

import numpy as np

from mv import hist, intgen, zoo

ID = "C09"
LEVEL = "exploration"
RULE = (
    "cases: (history) a random program of the stated length over a pool of up to 5 states derived from each other and "
    "two system objects of the same class sharing them: variable assignment (new array or in-place augmented), copy / "
    "read-only copy, pickle round trip, call of any cached or derived system method, flow application, dropping a "
    "system object and building another; after every call the result is compared with the same call on a freshly "
    "constructed state holding copies of the current values (arrays and scalars numerically identical to 1e-13, "
    "closures by their action on probes, matrices by their dense array). (nocache) integrator steps and whole "
    "transitions (all four kinds, seeded generator) run on ordinary states and on a ChainState subclass whose cache "
    "never reports a hit must give bitwise equal states and statistics. (directed) the design-phase witnesses. "
    "distinct_nontrivial = distinct (kind, system class, metric kind, operation-kind multiset signature)."
)
ASSUMPTIONS = [
    "from-scratch reference = the same real method on a fresh ChainState (so C09 judges caching only; C05 judges the values)",
    "in-place augmented assignment is not attempted on read-only copies (it raises after mutating, outside the property)",
]
REQUIRED = {"calls_compared": 1500, "nocache_runs": 40}
BUDGET_S = {"quick": 120, "thorough": 1200}


def shard_setup(obs) -> None:
    from mv import common

    common.setup_paths()


def gen_cases(tier: str, seed: int):
    n = {"quick": 400, "thorough": 30000}[tier]
    maxlen = {"quick": 12, "thorough": 40}[tier]
    rng = np.random.default_rng([seed, 9])
    yield {"kind": "directed", "seed": [seed, 0]}
    for i in range(n):
        k = zoo.SYSTEMS[i % len(zoo.SYSTEMS)]
        spec = zoo.random_sys_spec(rng, kinds=(k,), dim_range=(2, 4))
        yield {"kind": "history", "spec": spec, "length": int(rng.integers(4, maxlen + 1)), "seed": [seed, int(rng.integers(0, 2**31))]}
    for rep in range({"quick": 1, "thorough": 8}[tier]):
        for k in zoo.SYSTEMS:
            spec = zoo.random_sys_spec(rng, kinds=(k,), dim_range=(2, 3))
            yield {"kind": "templates", "spec": spec, "seed": [seed, int(rng.integers(0, 2**31))]}
    m = {"quick": 80, "thorough": 6000}[tier]
    for i in range(m):
        k = zoo.SYSTEMS[i % len(zoo.SYSTEMS)]
        spec = zoo.random_sys_spec(rng, kinds=(k,), dim_range=(2, 3))
        ik = str(rng.choice(zoo.compatible_integrators(k)))
        yield {"kind": "nocache", "spec": spec, "ispec": intgen.random_int_spec(rng, k, kinds=(ik,)),
               "transition": ["step", "static", "random", "multinomial", "slice"][i % 5], "frac": float(rng.uniform(0.05, 0.5)),
               "seed": [seed, int(rng.integers(0, 2**31))]}


def nocache_state_class():
    from mici.states import ChainState

    class NeverHit(dict):
        def __contains__(self, key):  # noqa: ARG002
            return False

        def copy(self):
            return NeverHit()

    class NoCacheState(ChainState):
        def __init__(self, **kw):
            kw["_cache"] = NeverHit()
            super().__init__(**kw)

    return NoCacheState


def case_nocache(case, obs) -> None:
    import mici
    from mici.errors import IntegratorError

    spec, ispec = case["spec"], dict(case["ispec"])
    rng = np.random.default_rng([abs(int(s)) for s in case["seed"]])
    m = zoo.Model(spec)
    q, p = m.random_point(rng)
    ispec["step_size"] = case["frac"] / intgen.frequency(m, q)
    integ = zoo.make_integrator(m, ispec)
    ncls = nocache_state_class()
    tkind = case["transition"]

    def make_transition():
        if tkind == "static":
            return mici.transitions.MetropolisStaticIntegrationTransition(m.system, integ, n_step=3)
        if tkind == "random":
            return mici.transitions.MetropolisRandomIntegrationTransition(m.system, integ, n_step_range=(1, 4))
        if tkind == "multinomial":
            return mici.transitions.MultinomialDynamicIntegrationTransition(m.system, integ, max_tree_depth=3)
        if tkind == "slice":
            return mici.transitions.SliceDynamicIntegrationTransition(m.system, integ, max_tree_depth=3)
        return None

    outs = []
    for cls in (None, ncls):
        st = m.state(q, p) if cls is None else cls(pos=q.copy(), mom=p.copy(), dir=1)
        g = np.random.default_rng(12345)
        try:
            if tkind == "step":
                for _ in range(3):
                    st = integ.step(st)
                stats = {}
            else:
                tr = make_transition()
                stats_all = []
                for _ in range(3):
                    st.mom = m.system.sample_momentum(st, g)
                    st, stats = tr.sample(st, g)
                    stats_all.append(dict(stats))
                stats = stats_all
            outs.append((np.array(st.pos), np.array(st.mom), int(st.dir), stats, None))
        except IntegratorError as e:
            outs.append((None, None, None, None, type(e).__name__))
    obs.count("nocache_runs")
    a, b = outs
    if a[4] != b[4]:
        obs.violation(f"nocache:different-failure:{tkind}", f"with caching {a[4]}, without {b[4]}; sys={spec} int={ispec}")
    elif a[4] is None:
        same = np.array_equal(a[0], b[0]) and np.array_equal(a[1], b[1]) and a[2] == b[2] and _stats_equal(a[3], b[3])
        if not same:
            obs.violation(f"nocache:result-differs:{tkind}:{type(m.system).__name__}",
                          f"{tkind} with caching active gives pos {a[0]!r}, with caching defeated {b[0]!r}; sys={spec} int={ispec}")
    obs.token("nocache", spec["sys"], spec.get("metric", spec.get("constr", spec.get("generic", "-"))), ispec["int"], tkind)


def _stats_equal(x, y):
    if isinstance(x, list):
        return len(x) == len(y) and all(_stats_equal(a, b) for a, b in zip(x, y))
    if isinstance(x, dict):
        return set(x) == set(y) and all(np.array_equal(np.asarray(x[k]), np.asarray(y[k]), equal_nan=True) for k in x)
    return x == y


def case_directed(obs) -> None:
    """Design-phase witnesses exercised on every run."""
    import gc

    import mici

    rng = np.random.default_rng(5)
    # (a) Gaussian system: dh2_dpos after a position change
    m = zoo.Model({"sys": "gaussian", "dim": 3, "seed": 1, "metric": "diag"})
    st = m.random_state(rng)
    m.system.dh2_dpos(st)
    st.pos = st.pos + 1.0
    obs.count("calls_compared")
    if not np.array_equal(m.system.dh2_dpos(st), st.pos):
        obs.violation("stale-cache:GaussianEuclideanMetricSystem.dh2_dpos", "dh2_dpos returned the position held before the assignment")
    # (b) identity metric: cached dh2_dmom aliases the momentum array of the state it was computed on
    m = zoo.Model({"sys": "euclidean", "dim": 3, "seed": 1, "metric": "none"})
    st = m.random_state(rng)
    m.system.dh2_dmom(st)
    c = st.copy()
    st.mom *= 2.0
    obs.count("calls_compared")
    if not np.array_equal(m.system.dh2_dmom(c), c.mom):
        obs.violation("cached-value-aliases-other-state-array:EuclideanMetricSystem.dh2_dmom",
                      "identity metric: dh2_dmom(s); c = s.copy(); s.mom *= 2; dh2_dmom(c) returns the sibling's mutated array, not c.mom")
    # (c) cache key uses id(system): a new system object allocated at a dead system's address inherits its entries
    reused = False
    for attempt in range(60):
        ma = zoo.Model({"sys": "euclidean", "dim": 2, "seed": 10 + attempt, "metric": "diag"})
        st = ma.random_state(rng)
        va = ma.system.neg_log_dens(st)
        tb = zoo.Target(2, np.random.default_rng(999 + attempt))
        metric = ma.system.metric
        old = id(ma.system)
        ma.system = None
        sysb = mici.systems.EuclideanMetricSystem(tb.f, metric=metric, grad_neg_log_dens=tb.grad)
        if id(sysb) == old:
            reused = True
            obs.count("calls_compared")
            got = sysb.neg_log_dens(st)
            if got != tb.f(st.pos):
                obs.violation("stale-after-system-id-reuse:EuclideanMetricSystem",
                              f"a new system object allocated at the address of a dead one returned the dead system's cached value "
                              f"{got!r} (== {va!r}) instead of {tb.f(st.pos)!r}")
            break
        del sysb
    if not reused:
        obs.inconc("system-id-not-reused-in-directed-case")
    obs.token("directed")


def run_case(case, obs) -> None:
    if case["kind"] == "directed":
        case_directed(obs)
        return
    if case["kind"] == "nocache":
        case_nocache(case, obs)
        return
    if case["kind"] == "templates":
        spec = case["spec"]
        rng = np.random.default_rng([abs(int(s)) for s in case["seed"]])
        for prog in hist.template_programs(spec["sys"], rng):
            runner = hist.Runner(spec, obs, "c09")
            runner.start(rng)
            runner.run(prog)
            obs.count("template_histories")
        obs.token("templates", spec["sys"], spec.get("metric", spec.get("constr", spec.get("generic", "-"))))
        return
    spec = case["spec"]
    rng = np.random.default_rng([abs(int(s)) for s in case["seed"]])
    prog = hist.gen_history(rng, spec["sys"], case["length"])
    runner = hist.Runner(spec, obs, "c09")
    runner.start(rng)
    runner.run(prog)
    obs.count("histories")
    sig = sorted({op[0] for op in prog})
    obs.token("history", spec["sys"], spec.get("metric", spec.get("constr", spec.get("generic", "-"))), sig, len(prog) > 12)
    obs.sample({"sys": spec["sys"], "program": prog[:10]})
