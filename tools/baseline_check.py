"""Run the repo test-suite (xdist, hooks guard OFF) and compare with BASELINE stable_pass.  python3 tools/baseline_check.py"""
import json, subprocess, sys, os, xml.etree.ElementTree as ET
out='/tmp/mici-baseline-check.junit.xml'
env=dict(os.environ); env.pop('MICI_VERIF',None)
r=subprocess.run(['/venv/bin/python','-m','pytest','-q','-p','no:cacheprovider','--timeout=900','-n','16',
                  '--continue-on-collection-errors',f'--junitxml={out}'],cwd='/repo',env=env,capture_output=True,text=True)
print(r.stdout.strip().splitlines()[-1])
base=json.load(open('/root/.vp/BASELINE.json'))
passed=set()
for tc in ET.parse(out).getroot().iter('testcase'):
    if not any(ch.tag in ('failure','error','skipped') for ch in tc):
        passed.add(f"{tc.get('classname')}::{tc.get('name')}")
missing=[t for t in base['stable_pass'] if t not in passed]
print('stable_pass:',len(base['stable_pass']),'now passing:',len(passed),'missing from pass set:',len(missing))
for t in missing[:20]: print('  MISSING',t)
os.remove(out)
sys.exit(1 if missing else 0)
