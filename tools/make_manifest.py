"""Regenerate /verif/MANIFEST.json from the table below (run with any python3)."""

import json
import subprocess
from pathlib import Path

VERIF = Path(__file__).resolve().parent.parent
BASE = json.load(open("/root/.vp/BASELINE.json"))

# id -> (level, technique, text, note, design_ref)
CHECKS = {
    "C20": (
        "exploration",
        "differential oracle: real helpers/operators vs 80-digit decimal reference over generated operand classes",
        "Runtime differential monitor: every generated call of log1p_exp/log1m_exp/log_sum_exp/log_diff_exp and of the "
        "LogRepFloat operators (binary, mixed, comparisons, in-place accumulation sequences up to 50 terms) on the real "
        "code is judged against exact decimal arithmetic within 8 ulp of the operand/result scale. Exploration is the "
        "right level: the input space is a product of floats; coverage is by magnitude/relation classes, not proof.",
        "Trusts python's decimal module at 80 digits; mixed arithmetic with plain numbers judged only where the plain "
        "value is representable (|log_val|<=700); near-tie mixed comparisons (within 64 ulp) are skipped as inconclusive.",
        "DESIGN.md section 3, C20",
    ),
}

CHECKS.update({
    "C10": (
        "exploration",
        "differential oracle: random operator programs over every matrix class vs an independent dense shadow",
        "Runtime differential monitor over generated expression trees: every class and constructor option (signs, "
        "lower/upper, supplied factors/LU/eigendecompositions, implicit sizes, inner matrices, nested blocks and low-rank "
        "parts, sizes 1-6) is combined by random programs of T/inv/sqrt/neg/scalar ops/Matrix@Matrix/block/low-rank "
        "composition (depth <=4 quick, <=8 thorough); after every step array, products, diagonal, transpose, "
        "log_abs_det, inverse, eigen-decomposition and sqrt are compared with dense numpy algebra and class-retention "
        "rules are checked. Exploration: the space of expression trees is unbounded; coverage is counted by (leaf, "
        "operator sequence).",
        "Trusts numpy/scipy dense algebra on shadows with cond <= 1e6; tolerance 1e-7 relative; low-rank factors are "
        "generated with full column rank (dim_inner <= dim_outer).",
        "DESIGN.md section 3, C10",
    ),
    "C11": (
        "exploration",
        "differential oracle: reported gradients vs 4th-order finite differences of the dense parametrisation",
        "Runtime differential monitor: for every differentiable matrix class and option (both signs, lower/upper, "
        "with/without inner matrix, SoftAbs coefficients 1e-2..1e2, block compositions, well separated / nearly equal / "
        "bit-identical Hessian eigenvalues) grad_log_abs_det and grad_quadratic_form_inv are compared along a complete "
        "basis of parameter directions, and in structure, with finite differences of log|det| and v'M^-1v of the dense "
        "formula.",
        "Finite differences decide to ~2e-6 relative; symmetric-array parameters judged along symmetric directions.",
        "DESIGN.md section 3, C11",
    ),
    "C19": (
        "exploration",
        "invariant monitors: operand content hashing, access-order permutation, equality/hash/copy laws, write probes",
        "Runtime monitors on real matrix objects: (1) sha1 of every caller-supplied array and operand before/after every "
        "operation and lazy-attribute access of generated operator programs; (2) equal-parameter instances queried in "
        "independent random attribute orders must agree and be bitwise repeatable; (3) ==/hash/copy/deepcopy/pickle "
        "laws before and after lazy attributes exist; (4) near-miss pairs: == must imply equal arrays; (5) in-place "
        "writes through parameter arrays must raise or leave the operator unchanged.",
        "Order independence compared at 1e-12 relative; write probes cover parameter arrays, not derived caches.",
        "DESIGN.md section 3, C19",
    ),
})

CHECKS.update({
    "C02": ("exploration", "history oracle: n steps / dir flip / n steps round trip + per-call input-state byte snapshots",
            "Runtime monitor around every real Integrator.step call: round trips of every integrator class on every "
            "compatible zoo system (position-dependent metrics, curved multi-constraint manifolds, compositions of 1-8 "
            "stages with random coefficients, all solvers, default and tightened tolerances, both directions, 1-25 steps) "
            "must return to the start or fail with an IntegratorError; the input state's bytes are compared before/after "
            "every call, also on failure.",
            "Tolerances calibrated on the unchanged tree (worst observed 1% of the bound); rounding amplification on "
            "diverging trajectories is counted inconclusive.", "DESIGN.md section 3, C02"),
    "C03": ("exploration", "finite-difference Jacobian of the n-step map: J^T Omega J = Omega (induced form on T*M when constrained)",
            "Runtime monitor forming central-difference Jacobians of the real 1-3 step maps on non-linear, "
            "position-dependent-metric and curved-manifold systems; constrained systems use an independently computed "
            "tangent basis of T*M and retracted curves.", "Decides symplecticity to 1e-6 (FD, h=1e-5).", "DESIGN.md section 3, C03"),
    "C04": ("exploration", "icontract post-conditions on the real step / projection / momentum functions and solver return contracts",
            "icontract post-conditions attached from the harness to ConstrainedLeapfrogIntegrator.step, "
            "project_onto_cotangent_space, sample_momentum and wrappers on the three projection solvers (residual below "
            "tolerance, Lagrange-multiplier form of the correction, only ConvergenceError escapes) stay on while "
            "standalone trajectories and full constrained HMC chains run; evaluation counts per contract are reported.",
            "Constraint residual judged with the zoo's own constraint function (bitwise what the solver saw).", "DESIGN.md section 3, C04"),
    "C05": ("exploration", "differential oracle: system methods vs independent dense Hamiltonian and its finite differences",
            "Every value and derivative method of all ten system classes (every metric matrix type, every return "
            "convention of the user functions) is compared with the documented formula evaluated by independent dense code "
            "and with 4th-order finite differences of it; sum rules checked.", "FD decides derivatives to 2e-6 relative.",
            "DESIGN.md section 3, C05"),
    "C06": ("exploration", "differential oracle: one step vs DOP853 reference flow at eps, eps/2, eps/4; composition coefficient invariants",
            "One real step is compared with a high-accuracy ODE/DAE solution of the zoo's independent Hamiltonian; the "
            "observed local-error and energy-error orders and the 'closer to flow(eps) than flow(2eps), flow(eps/2)' test "
            "decide consistency; coefficient sets of constructed compositions are checked for unit sums and palindromy.",
            "Reference flow noise floor 1e-9; orders are medians over 5 states x 2 halvings.", "DESIGN.md section 3, C06"),
    "C07": ("exploration", "differential oracle: component flows vs matrix exponential / analytic kick; group-law invariants",
            "h1_flow/h2_flow/dh2_flow_dmom of every tractable system with every constant metric type (incl. implicit "
            "identity) against expm of the dense generator, energy conservation, additivity, inverse, |t| up to 50.",
            "scipy.linalg.expm is the reference.", "DESIGN.md section 3, C07"),
    "C08": ("exploration", "scripted-generator extraction of the linear map L; L L^T and Crank-Nicolson invariance identities",
            "A scripted generator hands prescribed normal vectors to the real sample_momentum / momentum transitions; the "
            "extracted L must satisfy L L^T = metric (projected when constrained), and the correlated update "
            "A S A^T + B B^T = S; coefficient 0/1 special cases bitwise.", "Dense numpy algebra reference at 1e-8.",
            "DESIGN.md section 3, C08"),
    "C16": ("exploration", "exhaustive stager grid + write recorders / adapter call log on real sample_chains runs",
            "(a) stages() of both stagers enumerated for every n_warm in 0..600 x n_main x adapter mixes x nine window "
            "settings and checked for exact partition and adapter placement; (b) real sampler runs with __setattr__ "
            "recorders on integrator/system and logging adapter subclasses: no parameter write after the main stage "
            "starts, main-stage values are those of the last finalize with >=1 update, empty stages make no adapter call.",
            "Sampler part sequential (n_process=1); grid exhaustive only for the listed window settings.", "DESIGN.md section 3, C16"),
    "C17": ("exploration", "history + executable reference model (Hoffman-Gelman recursion; exact rational pooled moments)",
            "The real adapters are driven directly with generated histories and compared update by update with an "
            "independent dual-averaging recursion, and with exact Fraction arithmetic for variance/covariance over random "
            "partitions into chains (very unequal sizes, random order, offsets up to 1e6 x spread); initial step-size "
            "search re-evaluated at the returned step size and its neighbour.", "Tolerance 5*n*eps*(1+|mean|/std).",
            "DESIGN.md section 3, C17"),
})

NOT_YET = "check not built yet in this session (in progress; see DESIGN.md section 3 for the planned monitor)"


def main() -> None:
    props = [json.loads(line) for line in open(VERIF / "properties.jsonl")]
    hooks_commits = []
    try:
        out = subprocess.run(["git", "-C", "/repo", "log", "--format=%H %s"], capture_output=True, text=True).stdout
        hooks_commits = [ln.split()[0] for ln in out.splitlines() if ln.split(" ", 1)[1].startswith("verif-hook:")]
    except Exception:  # noqa: BLE001
        pass
    man = {
        "version": 1,
        "setup_cmd": "/venv/bin/pip install -q --no-index --find-links /opt/veriftools/wheels --target /verif/.deps icontract deal || true",
        "hooks": {
            "guard": "MICI_VERIF",
            "enable": "checks run with MICI_VERIF=1 in the environment; all instrumentation is attached from the harness "
                      "(wrappers, subclasses, icontract decorators) to the code imported from /repo/src, nothing is built",
            "baseline_off_cmd": BASE["cmd"].replace("<file>", "/tmp/mici-baseline.junit.xml"),
            "source_commits": hooks_commits,
            "add_only": True,
        },
        "engines": [
            {
                "name": "mv",
                "path": "mv/",
                "serves_properties": sorted(CHECKS),
                "kind_free_text": "runtime monitors (differential oracles, reference-model checkers, contracts, fault and "
                                  "interrupt injection) over generated executions of the real mici code, sharded over "
                                  "subprocesses",
            },
        ],
        "checks": [],
        "not_applicable": [],
        "notes": "All checks: ./check <id> <tier>; VERIF_SEED honoured; evidence/<id>.json rewritten on every run; known "
                 "findings in known_findings.json. Exit 2 = inconclusive/broken run (deciding monitor not reached).",
    }
    for p in props:
        pid = p["id"]
        if pid in CHECKS:
            level, tech, text, note, ref = CHECKS[pid]
            man["checks"].append({
                "property_id": pid,
                "quick_cmd": f"./check {pid} quick",
                "thorough_cmd": f"./check {pid} thorough",
                "evidence_file": f"/verif/evidence/{pid}.json",
                "replay_cmd_template": f"./check {pid} --replay {{path}}",
                "engine": "mv",
                "level_claimed": {"category": level, "text": text, "design_ref": ref},
                "level_note": note,
                "technique": tech,
            })
        else:
            man["not_applicable"].append({"property_id": pid, "reason": NOT_YET})
    (VERIF / "MANIFEST.json").write_text(json.dumps(man, indent=1))
    print("claimed:", [c["property_id"] for c in man["checks"]])


if __name__ == "__main__":
    main()
