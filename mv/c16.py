"""C16 - adaptation is confined to warm-up and stages partition the iterations exactly."""

from __future__ import annotations

import time

from collections import Counter

import numpy as np

ID = "C16"
LEVEL = "exploration"
RULE = (
    "cases: (stager) for one window setting (WarmUpStager and eight WindowedWarmUpStager settings) the real stages() is "
    "called for EVERY n_warm in a block of [0,600] x n_main in {0,1,7} x trace_warm_up x adapter mixes and the stage list "
    "is checked (warm-up lengths sum to n_warm, no negative length, last stage = adapter-free main stage of length "
    "n_main, slow adapters only in slow windows, fast adapters in every warm-up stage, trace/stat flags); the grid is "
    "enumerated completely. (sampler) real sample_chains runs (n_warm in {0..12,37,150}, chains 1-3, fast/slow/mixed "
    "adapters, both stagers, custom windows) with __setattr__ recorders on the integrator and system and logging "
    "subclasses of the adapters: no write to step_size/metric after the main stage starts, main-stage values equal "
    "those finalised by the last warm-up stage with >=1 update, empty stages make no adapter call. "
    "distinct_nontrivial = distinct (kind, stager setting, n_warm class, adapter mix, chains)."
)
ASSUMPTIONS = [
    "stager grid: exhaustive over n_warm 0..600 for the listed settings; other settings not explored",
    "sampler monitor runs with n_process=1 so that the recorders observe the objects the sampler mutates",
    "an AdaptationError raised by a variance adapter that saw < 2 samples is documented behaviour and is counted, not judged",
]
REQUIRED = {"stager_calls": 5000, "sampler_runs": 20, "main_iterations_checked": 50}
BUDGET_S = {"quick": 120, "thorough": 1200}
EXHAUSTIVE = False

WINDOWS = [None, "warmup", [25, 75, 50, 2.0], [125, 50, 25, 3], [10, 10, 10, 2.0], [1, 1, 1, 2.0], [5, 0, 0, 1.5], [20, 30, 0, 2.0],
           [7, 3, 11, 2.5], [50, 100, 100, 2.0], [10, 75, 50, 2.0], [25, 75, 50, 1.5], [25, 75, 50, 1.0], [5, 100, 20, 2.0],
           [3, 40, 5, 1.2], [2, 60, 0, 3.0], [40, 10, 60, 1.7], [15, 90, 30, 1.3]]


def random_windows(seed: int, n: int = 10) -> list:
    rng = np.random.default_rng([seed, 1616])
    return [[int(rng.integers(1, 60)), int(rng.integers(0, 120)), int(rng.integers(0, 80)), float(rng.choice([1.0, 1.25, 1.5, 2.0, 2.5, 3.0]))]
            for _ in range(n)]


class FakeAdapter:
    def __init__(self, fast, name) -> None:
        self.is_fast, self.name = fast, name


class ComputedFlagAdapter:
    """`is_fast` is declared as an abstract *property* in `mici.adapters.Adapter`: a computed flag (here the result of a
    numpy comparison, a `numpy.bool_`) is as legitimate as the class attributes of the built-in adapters."""

    def __init__(self, fast, name) -> None:
        self._level, self.name = np.array([1.0 if fast else 0.0]), name

    @property
    def is_fast(self):
        return self._level[0] > 0.5


def gen_cases(tier: str, seed: int):
    block = 100
    for wi in range(1, len(WINDOWS)):
        for lo in range(0, 601, block):
            yield {"kind": "stager", "window": wi, "lo": lo, "hi": min(lo + block, 601)}
    for w in random_windows(seed, {"quick": 10, "thorough": 120}[tier]):
        for lo in range(0, 601, 200):
            yield {"kind": "stager", "window": -1, "w": w, "lo": lo, "hi": min(lo + 200, 601)}
    yield from two_transition_cases(tier, seed)
    n = {"quick": 60, "thorough": 1500}[tier]
    rng = np.random.default_rng([seed, 16])
    warm_choices = list(range(0, 13)) + [37, 150]
    for i in range(n):
        mix = ["step", "var", "step+var", "step+cov", "none"][i % 5]
        n_chain = int(rng.integers(1, 4))
        n_warm = int(warm_choices[i % len(warm_choices)])
        stager = [None, "warmup", "windowed", [3, 2, 2, 2.0], [2, 1, 0, 2.0], [4, 0, 3, 1.5]][int(rng.integers(0, 6))]
        if stager == "warmup" and mix != "step" and mix != "none":
            stager = "windowed"
        if mix == "none":
            stager = None if stager != "warmup" else "warmup"
        yield {"kind": "sampler", "cfg": {"n_chain": n_chain, "n_warm": n_warm, "n_main": int(rng.choice([0, 1, 4])),
                                          "adapters": [] if mix == "none" else mix.split("+"), "stager": stager, "seed": int(rng.integers(0, 10**6)),
                                          "transition": str(rng.choice(["static", "multinomial"])), "dim": int(rng.integers(2, 4)),
                                          "trace_warm_up": bool(rng.integers(0, 2)), "step_size": 0.37, "n_process": 1,
                                          "front_end": "mcmc" if i % 4 == 3 else "hmc", "init": "state",
                                          "momentum_adapters": ["var"] if (i % 8 == 7 and mix == "step") else []}}


def two_transition_cases(tier, seed):
    rng = np.random.default_rng([seed, 1617])
    for j in range({"quick": 12, "thorough": 120}[tier]):
        yield {"kind": "sampler", "cfg": {"n_chain": 2, "n_warm": int([8, 12, 37, 20][j % 4]), "n_main": int(rng.choice([1, 3])),
                                          "adapters": ["step"], "momentum_adapters": ["var"], "stager": [None, [3, 2, 2, 2.0], [2, 1, 0, 2.0]][j % 3],
                                          "seed": int(rng.integers(0, 10**6)), "transition": str(rng.choice(["static", "multinomial"])),
                                          "dim": 2, "trace_warm_up": bool(j % 2), "step_size": 0.37, "n_process": 1, "front_end": "mcmc",
                                          "init": "state"}}


def make_stager(w):
    import mici

    if w == "warmup":
        return mici.stagers.WarmUpStager()
    return mici.stagers.WindowedWarmUpStager(*w)


def case_stager(case, obs) -> None:
    w = case["w"] if case["window"] == -1 else WINDOWS[case["window"]]
    stager = make_stager(w)
    fast, slow = FakeAdapter(True, "fast"), FakeAdapter(False, "slow")
    cfast, cslow = ComputedFlagAdapter(True, "fast"), ComputedFlagAdapter(False, "slow")
    plain_mixes = {"fast": {"t": [fast]}, "slow": {"t": [slow]}, "mixed": {"t": [fast, slow]}, "two-keys": {"a": [fast], "b": [slow, fast]}}
    computed_mixes = {"fast": {"t": [cfast]}, "slow": {"t": [cslow]}, "mixed": {"t": [cfast, cslow]}, "two-keys": {"a": [fast], "b": [cslow, cfast]}}
    tf = (lambda s: {"x": 0},)
    for n_warm in range(case["lo"], case["hi"]):
        # every third warm-up length uses adapters whose flag is computed (numpy.bool_) instead of a class attribute
        mixes = computed_mixes if n_warm % 3 == 1 else plain_mixes
        if n_warm % 3 == 1:
            obs.count("stager_calls_computed_flag")
        for n_main in (0, 1, 7):
            for mixname, adapters in mixes.items():
                if w == "warmup" and mixname != "fast":
                    continue
                for twu in (False, True):
                    obs.count("stager_calls")
                    stages = stager.stages(n_warm, n_main, adapters, tf, trace_warm_up=twu)
                    items = list(stages.items())
                    tag = f"n_warm={n_warm} n_main={n_main} window={w} adapters={mixname} trace_warm_up={twu}"
                    lens = [st.n_iter for _, st in items]
                    if any((not isinstance(x, (int, np.integer))) or x < 0 for x in lens):
                        obs.violation("stager:negative-or-non-integer-length", f"stage lengths {lens} for {tag}")
                        continue
                    warm = [(k, st) for k, st in items if st.adapters is not None]
                    main = [(k, st) for k, st in items if st.adapters is None]
                    if sum(st.n_iter for _, st in warm) != n_warm:
                        obs.violation("stager:warm-up-lengths-do-not-sum", f"warm-up stage lengths {[st.n_iter for _, st in warm]} sum to "
                                      f"{sum(st.n_iter for _, st in warm)} != {n_warm}; {tag}")
                    if n_main > 0:
                        if len(main) != 1 or items[-1][1].adapters is not None or items[-1][1].n_iter != n_main:
                            obs.violation("stager:main-stage", f"final stage is not the adapter-free main stage of length {n_main}: {[(k, st.n_iter, st.adapters is None) for k, st in items]}; {tag}")
                        elif not items[-1][1].record_stats or items[-1][1].trace_funcs is None:
                            obs.violation("stager:main-stage-not-recorded", f"main stage does not record; {tag}")
                    elif any(st.n_iter > 0 for _, st in main):
                        obs.violation("stager:main-stage", f"main stage with iterations although n_main=0; {tag}")
                    if n_warm == 0 and any(st.n_iter > 0 for _, st in warm):
                        obs.violation("stager:warm-up-without-request", f"{tag}")
                    for k, st in warm:
                        names = {kk: [a.name for a in v] for kk, v in st.adapters.items()}
                        is_slow_window = "slow" in k.lower()
                        has_slow = any("slow" in v for v in names.values())
                        want_fast = {kk: [a.name for a in v if a.is_fast] for kk, v in adapters.items()}
                        got_fast = {kk: [x for x in v if x == "fast"] for kk, v in names.items()}
                        if got_fast != want_fast:
                            obs.violation("stager:fast-adapter-missing", f"stage {k!r} has adapters {names}; {tag}")
                        if has_slow and not is_slow_window:
                            obs.violation("stager:slow-adapter-outside-slow-window", f"stage {k!r} has adapters {names}; {tag}")
                        if is_slow_window and names != {kk: [a.name for a in v] for kk, v in adapters.items()}:
                            obs.violation("stager:slow-window-adapters", f"slow stage {k!r} has adapters {names}; {tag}")
                        if bool(st.record_stats) != twu or (st.trace_funcs is not None) != twu:
                            obs.violation("stager:warm-up-trace-flags", f"stage {k!r}: record_stats={st.record_stats} trace_funcs={st.trace_funcs is not None}; {tag}")
                    nclass = "0" if n_warm == 0 else ("<10" if n_warm < 10 else ("<150" if n_warm < 150 else ">=150"))
                    obs.token("stager", str(w), nclass, mixname, n_main)
    obs.sample({"kind": "stager", "window": w, "n_warm_block": [case["lo"], case["hi"]]})


def case_sampler(case, obs) -> None:  # noqa: C901, PLR0912, PLR0915
    from mici.errors import AdaptationError

    from mv import samp

    cfg = dict(case["cfg"])
    writes = []
    calls = []

    def install(sampler, system, integ, kw):
        def rec_class(obj, label):
            base = type(obj)

            class Rec(base):
                def __setattr__(self, k, v):
                    if k in ("step_size", "metric"):
                        writes.append((label, k, time.monotonic_ns(), _val(v)))
                    base.__setattr__(self, k, v)

            Rec.__name__ = base.__name__
            Rec.__qualname__ = base.__qualname__
            obj.__class__ = Rec

        rec_class(system, "system")
        rec_class(integ, "integrator")
        adapters = kw.get("adapters") or []
        alist = [a for v in adapters.values() for a in v] if isinstance(adapters, dict) else adapters
        for a in alist:
            a.__class__ = _rec_adapter_class(type(a), calls, computed_flag=cfg["seed"] % 3 == 0)

    res = samp.run(cfg, post_build=install)
    try:
        exc = res["exc"]
        if isinstance(exc, AdaptationError):
            obs.count("adaptation_error_runs")
            # documented only for a variance / covariance adapter that saw fewer than two samples: legitimate iff some
            # adaptive stage with such an adapter offers fewer than two (iterations x chains)
            plan = list(samp.stage_plan(cfg, res["kw"]).items())
            starved = [k for k, st in plan if st.adapters is not None and st.n_iter * cfg["n_chain"] < 2 and st.n_iter > 0 and any(
                "Variance" in type(a).__name__ or "Covariance" in type(a).__name__ for v in st.adapters.values() for a in v)]
            n_upd = Counter(c[0] for c in calls if c[1] == "update")
            if not starved:
                obs.violation("sampler:adaptation-error-with-enough-samples",
                              f"{exc!r} although every adaptive stage with a metric adapter has >= 2 samples "
                              f"(stages {[(k, st.n_iter) for k, st in plan]}, {cfg['n_chain']} chains; update calls seen {dict(n_upd)}); cfg={cfg}")
            return
        if exc is not None:
            raise exc
        obs.count("sampler_runs")
        stages = list(samp.stage_plan(cfg, res["kw"]).items())
        n_chain = cfg["n_chain"]
        ends = [r for r in res["recs"] if r["kind"] == "end"]
        starts = [r for r in res["recs"] if r["kind"] == "start"]
        total = sum(st.n_iter for _, st in stages)
        if len(ends) != total * n_chain:
            obs.violation("sampler:iteration-count", f"{len(ends)} iterations logged, stage plan has {total} x {n_chain} chains; cfg={cfg}")
            return
        # map iteration index -> stage
        bounds = np.cumsum([st.n_iter for _, st in stages])
        def stage_of(it):
            return int(np.searchsorted(bounds, it, side="right"))
        main_idx = len(stages) - 1 if stages and stages[-1][1].adapters is None else None
        main_starts = [r for r in starts if main_idx is not None and stage_of(r["iter"]) == main_idx]
        t_main = min((r["t"] for r in main_starts), default=None)
        # 1. no parameter write once the main stage has started
        if t_main is not None:
            late = [w for w in writes if w[2] > t_main]
            obs.count("writes_checked", len(writes))
            if late:
                obs.violation(f"sampler:parameter-write-during-main-stage:{late[0][1]}",
                              f"{len(late)} write(s) to {sorted({w[1] for w in late})} after the main stage started; cfg={cfg}")
            lateu = [c for c in calls if c[2] > t_main]
            if lateu:
                obs.violation("sampler:adapter-call-during-main-stage", f"adapter calls {sorted({(c[0], c[1]) for c in lateu})} after the main stage started; cfg={cfg}")
        # 2. adapter calls only for non-empty adaptive stages
        n_adaptive = 0
        want_init = 0
        for _k, st in stages:
            if st.adapters is not None and st.n_iter > 0:
                na = sum(len(v) for v in st.adapters.values())
                if na:
                    n_adaptive += na
                    want_init += na * n_chain
        # 2b. every active adapter is updated once per iteration and chain of its stages
        want_upd = Counter()
        for _k, st in stages:
            if st.adapters is not None:
                for v in st.adapters.values():
                    for a in v:
                        want_upd[type(a).__name__] += st.n_iter * n_chain
        got_upd = Counter(c[0] for c in calls if c[1] == "update")
        obs.count("adapter_update_counts_checked", len(want_upd))
        if {k: v for k, v in want_upd.items() if v} != dict(got_upd):
            obs.violation("sampler:adapter-update-count",
                          f"update calls per adapter {dict(got_upd)} but the stage plan has {dict(want_upd)} (iterations x chains of the "
                          f"stages in which each adapter is active); cfg={cfg}")
        n_init = sum(1 for c in calls if c[1] == "initialize")
        n_fin = sum(1 for c in calls if c[1] == "finalize")
        obs.count("adapter_calls_logged", len(calls))
        if n_init != want_init or n_fin != n_adaptive:
            obs.violation("sampler:adapter-calls-for-empty-stage",
                          f"{n_init} initialize / {n_fin} finalize calls, expected {want_init} / {n_adaptive} from the non-empty adaptive stages "
                          f"{[(k, st.n_iter) for k, st in stages]}; cfg={cfg}")
        # 3. main-stage values = values finalised by the last warm-up stage with >= 1 update
        main_ends = [r for r in ends if main_idx is not None and stage_of(r["iter"]) == main_idx]
        if main_ends:
            obs.count("main_iterations_checked", len(main_ends))
            step_sizes = {r["step_size"] for r in main_ends} | {r["stats"]["step_size"] for r in main_ends}
            metrics = {None if r["metric_diag"] is None else tuple(np.round(r["metric_diag"], 14)) for r in main_ends}
            if len(step_sizes) != 1 or len(metrics) != 1:
                obs.violation("sampler:parameters-change-during-main-stage", f"step sizes {step_sizes}, {len(metrics)} metrics in main stage; cfg={cfg}")
            # last finalize preceded by >= 1 update of the same adapter class since its initialize
            want_step, want_metric = cfg["step_size"], None
            pending = {}
            for name, meth, _t, info in calls:
                if meth == "initialize":
                    pending.setdefault(name, 0)
                elif meth == "update":
                    pending[name] = pending.get(name, 0) + 1
                elif meth == "finalize":
                    if pending.get(name, 0) > 0:
                        if name == "DualAveragingStepSizeAdapter":
                            want_step = info["step_size"]
                        else:
                            want_metric = tuple(np.round(info["metric_diag"], 14))
                    elif name == "DualAveragingStepSizeAdapter":
                        obs.violation("sampler:finalize-without-update", f"step size adapter finalised without any update (step size {info['step_size']}); cfg={cfg}")
                    pending[name] = 0
            got_step = next(iter(step_sizes))
            got_metric = next(iter(metrics))
            if cfg.get("momentum_adapters"):
                cfg = dict(cfg, adapters=cfg["adapters"] + cfg["momentum_adapters"])
            has_step = "step" in cfg["adapters"] and cfg["n_warm"] > 0
            if has_step and got_step != want_step:
                obs.violation("sampler:main-step-size-not-last-finalised",
                              f"main stage runs with step size {got_step!r}; last finalize with >=1 update produced {want_step!r}; stages "
                              f"{[(k, st.n_iter) for k, st in stages]}; cfg={cfg}")
            if not has_step and got_step != cfg["step_size"]:
                obs.violation("sampler:step-size-changed-without-adaptation", f"step size {got_step!r} != configured {cfg['step_size']}; cfg={cfg}")
            if got_metric is not None and want_metric is not None and got_metric != want_metric and any(a in cfg["adapters"] for a in ("var",)):
                obs.violation("sampler:main-metric-not-last-finalised", f"main-stage metric diag {got_metric} != last finalised {want_metric}; cfg={cfg}")
        nclass = "0" if cfg["n_warm"] == 0 else ("<10" if cfg["n_warm"] < 10 else "more")
        obs.token("sampler", str(cfg["stager"]), nclass, "+".join(cfg["adapters"]) or "none", n_chain, cfg["n_main"] > 0)
        obs.sample({"kind": "sampler", "cfg": cfg, "stages": [(k, st.n_iter) for k, st in stages], "writes": len(writes), "adapter_calls": len(calls)})
    finally:
        samp.cleanup(res)


def _rec_adapter_class(base, calls, computed_flag=False):
    from mv import samp

    class RecA(base):
        def initialize(self, chain_state, transition):
            calls.append((base.__name__, "initialize", time.monotonic_ns(), None))
            return base.initialize(self, chain_state, transition)

        def update(self, adapt_state, chain_state, trans_stats, transition):
            calls.append((base.__name__, "update", time.monotonic_ns(), None))
            return base.update(self, adapt_state, chain_state, trans_stats, transition)

        def finalize(self, adapt_states, chain_states, transition, rngs):
            r = base.finalize(self, adapt_states, chain_states, transition, rngs)
            calls.append((base.__name__, "finalize", time.monotonic_ns(),
                          {"step_size": getattr(getattr(transition, "inner", transition), "integrator", None) and transition.integrator.step_size,
                           "metric_diag": samp._metric_diag(transition.system)}))  # noqa: SLF001
            return r

    if computed_flag:
        flag = np.array([1.0 if base.is_fast else 0.0])
        RecA.is_fast = property(lambda self: flag[0] > 0.5)  # a numpy.bool_, as a flag computed from arrays would be
    RecA.__name__ = base.__name__
    return RecA


def _val(v):
    if isinstance(v, (int, float)) or v is None:
        return v
    return type(v).__name__


def shard_setup(obs) -> None:
    from mv import common

    common.setup_paths()


def run_case(case, obs) -> None:
    if case["kind"] == "stager":
        case_stager(case, obs)
    else:
        case_sampler(case, obs)
