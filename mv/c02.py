"""C02 - every integrator step is time-reversible or fails loudly; the input state is never modified."""

from __future__ import annotations

import numpy as np

from mv import intgen, zoo

ID = "C02"
LEVEL = "exploration"
RULE = (
    "each case = (system from the zoo: 10 classes x metric types x conventions, dim 1-6) x (integrator: leapfrog, "
    "BCSS 2/3/4, symmetric compositions with 1-8 stages and random free coefficients incl. negative ones and both "
    "initial flows, implicit leapfrog / midpoint with both fixed-point solvers, constrained leapfrog with the three "
    "projection solvers and 1-4 inner steps; default and tightened solver tolerances) x step size (0.003-1.3 of the "
    "local period scale, both directions) x trajectory length 1-25. The monitor integrates n steps, flips dir, "
    "integrates n steps and compares with the start; every step call is wrapped to snapshot the input state bytes "
    "before/after (also when the step raises) and to check finiteness of the output. distinct_nontrivial = distinct "
    "(system class, metric/constraint kind, integrator kind, stage count, solver, tolerance class, step-size class, "
    "dir) of round trips that completed."
)
ASSUMPTIONS = [
    "explicit integrators: return error <= 1e-11*(1+max|z|)*n; implicit/constrained: 2e-7*(1+max|z|)*n with default "
    "solver tolerances (reverse_check_tol 2e-8 per sub-step is what the code itself guarantees) and 1e-9*(1+max|z|) "
    "with tightened tolerances (convergence 1e-13, reverse check 1e-9), each multiplied by the measured sensitivity of the "
    "n-step map to a 1e-6 displacement of the start (> 1e4: inconclusive); trajectories whose |z| grows 50x are inconclusive (rounding amplification)",
    "IntegratorError subclasses are the documented loud failure and are counted, not judged",
]
REQUIRED = {"round_trips_completed": 150, "input_unchanged_checks": 2000}
BUDGET_S = {"quick": 120, "thorough": 1200}


def shard_setup(obs) -> None:
    from mv import common

    common.setup_paths()


def gen_cases(tier: str, seed: int):
    n = {"quick": 700, "thorough": 60000}[tier]
    rng = np.random.default_rng([seed, 2])
    combos = []
    for k in zoo.SYSTEMS:
        for ik in zoo.compatible_integrators(k):
            combos.append((k, ik))
    for i in range(n):
        k, ik = combos[i % len(combos)]
        spec = zoo.random_sys_spec(rng, kinds=(k,))
        ispec = intgen.random_int_spec(rng, k, kinds=(ik,))
        lo, hi = intgen.frac_range(k, ik)
        yield {"spec": spec, "ispec": ispec, "frac": float(np.exp(rng.uniform(np.log(lo), np.log(hi)))),
               "n": int(rng.choice([1, 2, 3, 5, 10, 25])), "dir": int(rng.choice([-1, 1])),
               "seed": [seed, int(rng.integers(0, 2**31))]}
    # hostile constrained family: multi-branch / strongly non-linear manifolds, several inner steps, large steps --
    # retractions that can converge to a different branch must be refused by the reversibility check, never returned
    for i in range({"quick": 600, "thorough": 12000}[tier]):
        k = zoo.CONSTRAINED[i % 3]
        spec = zoo.random_sys_spec(rng, kinds=(k,), dim_range=(2, 3), metrics=("none", "diag", "dense"))
        spec["constr"] = ["sine", "arctan_sphere", "sine", "sphere", "arctan_quadric", "sine"][i % 6]
        ispec = intgen.random_int_spec(rng, k, tight=False, kinds=("constrained",))
        ispec["n_inner_step"] = int(rng.integers(2, 5))
        yield {"spec": spec, "ispec": ispec, "frac": float(np.exp(rng.uniform(np.log(0.3), np.log(4.0)))),
               "n": int(rng.choice([1, 2, 4])), "dir": int(rng.choice([-1, 1])), "seed": [seed, int(rng.integers(0, 2**31))],
               "hostile": True}
    yield from _more_cases(tier, seed, rng)


def _more_cases(tier, seed, rng):
    # hostile implicit family: non-separable (Riemannian) Hamiltonians with large steps and large momenta, where the
    # implicit equations have several roots -- a step that would not be undone must be refused, never returned
    for i in range({"quick": 480, "thorough": 12000}[tier]):
        k = zoo.RIEMANNIAN[i % len(zoo.RIEMANNIAN)]
        spec = zoo.random_sys_spec(rng, kinds=(k,), dim_range=(1, 3))
        ik = ("implicit_leapfrog", "implicit_leapfrog", "implicit_leapfrog", "implicit_midpoint")[(i // len(zoo.RIEMANNIAN)) % 4]
        ispec = intgen.random_int_spec(rng, k, tight=False, kinds=(ik,))
        yield {"spec": spec, "ispec": ispec, "frac": float(np.exp(rng.uniform(np.log(0.8), np.log(6.0)))),
               "n": int(rng.choice([1, 1, 1, 2])), "dir": int(rng.choice([-1, 1])), "seed": [seed, int(rng.integers(0, 2**31))],
               "hostile": True, "mom_scale": float(rng.uniform(3.0, 12.0))}


def run_case(case, obs) -> None:  # noqa: C901, PLR0912, PLR0915
    from mici.errors import IntegratorError

    spec, ispec = case["spec"], dict(case["ispec"])
    rng = np.random.default_rng([abs(int(s)) for s in case["seed"]])
    m = zoo.Model(spec)
    q, p = m.random_point(rng)
    p = p * case.get("mom_scale", 1.0)
    # the hostile family deliberately ignores the curvature of the manifold when sizing the step
    eps = case["frac"] / intgen.frequency(m, q, curvature=not case.get("hostile", False))
    ispec["step_size"] = eps
    integ = zoo.make_integrator(m, ispec)
    iname = type(integ).__name__
    sname = type(m.system).__name__
    explicit = ispec["int"] in ("leapfrog", "bcss2", "bcss3", "bcss4", "symcomp")
    maxnorm = [0.0]
    # start states with a past (cache populated at another point, then copied / pickled / deep-copied, then assigned)
    how = ["fresh", "pickle", "copy", "deepcopy"][int(case["seed"][-1]) % 4]

    def step(st):
        """One monitored call of the real Integrator.step."""
        before = intgen.snapshot(st)
        obs.count("step_calls")
        try:
            out = integ.step(st)
        except IntegratorError as e:
            obs.count(f"loud_failure.{type(e).__name__}")
            obs.count("input_unchanged_checks")
            if intgen.snapshot(st) != before:
                obs.violation(f"input-modified-on-failure:{iname}", f"{iname}.step modified its input state before raising {type(e).__name__}; {spec} {ispec}")
            raise
        except Exception as e:  # noqa: BLE001
            if intgen.snapshot(st) != before:
                obs.violation(f"input-modified-on-failure:{iname}", f"{iname}.step modified its input and raised {type(e).__name__}")
            obs.violation(f"foreign-exception:{type(e).__name__}:{iname}",
                          f"{iname}.step raised {type(e).__name__} ({e}) instead of an IntegratorError; sys={sname} {spec} {ispec}")
            raise IntegratorError("foreign") from e
        obs.count("input_unchanged_checks")
        if intgen.snapshot(st) != before:
            obs.violation(f"input-modified:{iname}", f"{iname}.step modified its input state; sys={sname} {spec} {ispec}")
        if out is st:
            obs.violation(f"input-returned:{iname}", f"{iname}.step returned its input object")
        zz = np.concatenate([np.asarray(out.pos, dtype=float), np.asarray(out.mom, dtype=float)])
        if not np.all(np.isfinite(zz)) and explicit:
            # an explicit step cannot fail loudly; overflow on a diverging trajectory is a property of the dynamics
            obs.inconc("explicit-integrator-overflow")
            raise IntegratorError("overflow")
        if not np.all(np.isfinite(zz)):
            obs.violation(f"non-finite-output:{iname}", f"{iname}.step returned a non-finite state without raising; sys={sname} eps={eps:.3g} {spec} {ispec}")
            raise IntegratorError("nonfinite")
        if out.dir != st.dir:
            obs.violation(f"dir-changed:{iname}", f"{iname}.step changed the direction flag")
        maxnorm[0] = max(maxnorm[0], float(np.max(np.abs(zz))))
        return out

    def trip(q, p, direction, label):
        z0 = np.concatenate([q, p])
        maxnorm[0] = float(np.max(np.abs(z0)))
        result["err"] = None
        st = m.used_state(q, p, direction, how)
        leg = 1
        try:
            for _ in range(case["n"]):
                st = step(st)
            z_mid = np.concatenate([st.pos, st.mom])
            st.dir *= -1
            leg = 2
            mid_state = st.copy()
            for _ in range(case["n"]):
                st = step(st)
        except IntegratorError as e:
            obs.count("round_trips_failed_loudly")
            obs.count(f"failed_loudly.leg{leg}")
            if leg == 2:
                # the reversed step is itself a step that may fail loudly: its own reversibility check re-solves the
                # outward step's implicit equations from a different initial guess and can refuse although the outward
                # step succeeded.  "Reversible or fails loudly" is satisfied; only counted.
                obs.count("back_leg_failed_loudly_after_outward_success")
            return
        obs.count("round_trips_completed")
        if maxnorm[0] > 50 * (1 + np.max(np.abs(z0))):
            obs.inconc("trajectory-diverged")
            return
        err = float(np.max(np.abs(np.concatenate([st.pos, st.mom]) - z0)))
        result["err"] = err
        scale = 1 + maxnorm[0]
        # sensitivity of the n-step map (how much per-step tolerance-level errors are amplified on the way back):
        # forward run from a slightly displaced, re-projected start
        def sensitivity(zs, direction, ref_end):
            """Amplification of a 1e-6 displacement of the start zs by n steps in the given direction. The undisplaced
            reference is re-run here as well, so that the estimate compares two runs made under the same conditions
            (a repeat that differs from the first run is counted, it is not by itself a violation of this property)."""
            s0 = m.state(zs[: m.dim].copy(), zs[m.dim:].copy(), direction)
            for _ in range(case["n"]):
                s0 = integ.step(s0)
            again = np.concatenate([s0.pos, s0.mom])
            obs.count("repeat_leg_checks")
            if float(np.max(np.abs(again - ref_end))) > 1e-12 * (1 + float(np.max(np.abs(ref_end)))):
                obs.count("repeat_leg_differs")
            ref_end = again
            delta = 1e-6 * rng.standard_normal(zs.size)
            q2, p2 = zs[: m.dim] + delta[: m.dim], zs[m.dim:] + delta[m.dim:]
            if m.constrained:
                q2 = m.constraint.project(q2, np.linalg.inv(m.metric_dense))
                p2 = m.ref_projector(q2) @ p2
            s2 = m.state(q2, p2, direction)
            for _ in range(case["n"]):
                s2 = integ.step(s2)
            d0 = float(np.max(np.abs(np.concatenate([q2, p2]) - zs)))
            return float(np.max(np.abs(np.concatenate([s2.pos, s2.mom]) - ref_end))) / max(d0, 1e-12)

        sens = 1.0
        try:
            # errors made on the way out are amplified by the way back and vice versa: take the larger of both legs
            sens = max(1.0, sensitivity(z0, direction, z_mid), sensitivity(z_mid, -direction, np.concatenate([st.pos, st.mom])))
        except (IntegratorError, FloatingPointError, np.linalg.LinAlgError):
            obs.inconc("sensitivity-not-measurable")
            return
        obs.maxi("sensitivity", sens)
        if sens > 1e4:
            obs.inconc("trajectory-too-sensitive")
            return
        if explicit:
            tol = 1e-11 * scale * case["n"] * sens
            fam = "explicit"
        elif ispec.get("tight"):
            tol = 1e-9 * scale * sens
            fam = "implicit-tight" if not m.constrained else "constrained-tight"
        else:
            tol = 2e-7 * scale * case["n"] * sens
            fam = "implicit-default" if not m.constrained else "constrained-default"
        obs.maxi(f"return_error_over_tol.{fam}", err / tol, {"int": ispec, "sys": spec["sys"], "n": case["n"], "eps": eps})
        obs.maxi(f"return_error.{fam}", err / scale)
        if err > tol:
            obs.violation(f"not-reversible:{iname}:{sname}{label}",
                          f"{case['n']} steps, dir flip, {case['n']} steps returns with error {err:.3e} > {tol:.3e}; eps={eps:.4g} "
                          f"frac={case['frac']:.3g}{label} sys={spec} int={ispec}")

    result = {}
    trip(q, p, case["dir"], "")
    err = result["err"]
    # the step size of a live integrator is reassigned by the adapters: a reused integrator must step exactly like a
    # freshly constructed one with the new step size
    eps2 = eps * float(rng.uniform(0.3, 1.2))
    integ.step_size = eps2
    fresh = zoo.make_integrator(m, dict(ispec, step_size=eps2))
    try:
        a = integ.step(m.state(q, p, case["dir"]))
        b = fresh.step(m.state(q, p, case["dir"]))
        obs.count("reused_integrator_checks")
        if not (np.array_equal(a.pos, b.pos) and np.array_equal(a.mom, b.mom)):
            obs.violation(f"stale-after-step-size-change:{iname}", f"after integrator.step_size was reassigned a step differs from a fresh integrator's; sys={spec} int={ispec}")
    except IntegratorError:
        pass
    integ.step_size = eps
    # the metric of a live system is reassigned by the metric adapters at the end of warm-up: a system (and integrator)
    # that has already been stepped at this step size must stay reversible afterwards
    if spec["sys"] in zoo.TRACTABLE and case.get("reassign", True) and not case.get("hostile"):
        d2 = int(rng.choice([-1, 1]))
        try:
            integ.step(m.state(q, p, d2))  # the last flow before the reassignment has the time step the next trip starts with
        except IntegratorError:
            pass
        new_kind = str(rng.choice(["diag", "dense", "scaled", "chol_lower", "eig"]))
        new_arg, new_dense = zoo.const_metric(new_kind, m.dim, rng)
        m.system.metric = new_arg
        m.metric_dense = new_dense
        q2, p2 = m.random_point(rng)
        obs.count("round_trips_after_metric_reassignment")
        trip(q2, p2, d2, f":after-metric-reassignment")
    fc = "small" if case["frac"] < 0.05 else ("mid" if case["frac"] < 0.4 else "large")
    obs.token(spec["sys"], spec.get("metric", spec.get("constr", spec.get("generic", "-"))), ispec["int"], intgen.stages(ispec),
              ispec.get("solver", "-"), ispec.get("tight"), fc, case["dir"])
    obs.sample({"sys": spec["sys"], "int": ispec, "eps": eps, "n": case["n"], "dir": case["dir"], "return_error": err})
