"""Re-run the checks named in every seeded/<id>/meta.json against the patched scratch copy with the current machinery
and refresh caught_by / checks_run.   python3 tools/recheck_seeds.py [Cxx-A ...]"""
import json, os, subprocess, sys, tempfile
from pathlib import Path
VERIF = Path("/verif")
sel = set(sys.argv[1:])
for d in sorted((VERIF / "seeded").iterdir()):
    if sel and d.name not in sel:
        continue
    meta = json.loads((d / "meta.json").read_text())
    wt = tempfile.mkdtemp(prefix="mvrs-"); os.rmdir(wt)
    subprocess.run(["git", "-C", "/repo", "worktree", "add", "-q", "--detach", wt, "HEAD"], check=True)
    try:
        a = subprocess.run(["git", "apply", str(d / "patch.diff")], cwd=wt, capture_output=True, text=True)
        if a.returncode != 0:
            print(d.name, "PATCH NO LONGER APPLIES", a.stderr[:200]); continue
        verdicts = {}
        for c in meta.get("checks_run", {meta["property"]: 0}):
            rr = subprocess.run([str(VERIF / "check"), c, "quick"], cwd=str(VERIF), env=dict(os.environ, MV_REPO=wt), capture_output=True, text=True, timeout=3000)
            keys = sorted({ln.split("key=")[1].strip() for ln in rr.stdout.splitlines() if ln.startswith("VIOLATION") and "key=" in ln})
            import re as _re
            mm = _re.search(r"violations=(\d+)", rr.stdout)
            verdicts[c] = {"rc": rr.returncode, "violation_keys": keys[:8], "n_violations": int(mm.group(1)) if mm else None}
        meta["checks_run"] = verdicts
        meta["caught_by"] = [c for c, v in verdicts.items() if v["rc"] == 1]
        (d / "meta.json").write_text(json.dumps(meta, indent=1))
        print(d.name, "caught_by", meta["caught_by"], {c: v["rc"] for c, v in verdicts.items()})
    finally:
        subprocess.run(["git", "-C", "/repo", "worktree", "remove", "--force", wt])
