"""C20 - log-space arithmetic matches real arithmetic (reference: 80-digit decimal)."""

from __future__ import annotations

import math
import operator
from decimal import Decimal, getcontext

import numpy as np

ID = "C20"
LEVEL = "exploration"
RULE = (
    "cases = batches of randomly generated operands (log-values uniform / log-uniform over +-745, +-1e5, +-1e300, "
    "near 0, equal and nearly equal pairs, -inf) fed to the real helper functions and LogRepFloat operators; each "
    "evaluation is compared with an 80-digit decimal reference computed in the log domain. distinct_nontrivial "
    "counts distinct (function/operator, magnitude class of every operand, relation class) combinations that were "
    "judged (trivial = operand classes all 'moderate' and unrelated)."
)
ASSUMPTIONS = [
    "python decimal module (80 digits) is the exact-arithmetic reference",
    "the real value of a LogRepFloat is exp(log_val); mixed arithmetic with plain numbers (+,-,*,/ returning a plain "
    "float) is judged only where the LogRepFloat's plain value is representable (|log_val|<=700); comparisons and "
    "in-place accumulation are judged over the whole range",
]
REQUIRED = {"judged": 2000}
BUDGET_S = {"quick": 60, "thorough": 600}

getcontext().prec = 80
EPS = 2.220446049250313e-16
K = 8  # ulps
INF = float("inf")


def D(x) -> Decimal:
    return Decimal(float(x))


def dexp(d: Decimal) -> Decimal:
    if d < -2_000_000:
        return Decimal(0)
    return d.exp()


def ex_log1p_exp(x: float) -> Decimal:
    d = D(x)
    if d > 0:
        return d + ex_log1p_exp_neg(-d)
    return ex_log1p_exp_neg(d)


def ex_log1p_exp_neg(d: Decimal) -> Decimal:
    y = dexp(d)
    if y < Decimal("1e-60"):
        return y - y * y / 2
    return (1 + y).ln()


def neg_expm1(d: Decimal) -> Decimal:
    """1 - exp(d) for d < 0 without cancellation."""
    if d > Decimal("-1e-4"):
        term, total, k = -d, Decimal(0), 1
        while True:  # -(d + d^2/2! + d^3/3! + ...)
            total += term
            k += 1
            term = term * d / k
            if abs(term) < abs(total) * Decimal("1e-90"):
                return total
    return 1 - dexp(d)


def ex_log1m_exp_d(d: Decimal) -> Decimal:
    y = dexp(d)
    if y < Decimal("1e-60"):
        return -y - y * y / 2
    return neg_expm1(d).ln()


def ex_log1m_exp(x: float) -> Decimal:
    return ex_log1m_exp_d(D(x))  # x < 0


def ex_lse(a: float, b: float) -> Decimal | float:
    if a == -INF and b == -INF:
        return -INF
    if a == -INF:
        return D(b)
    if b == -INF:
        return D(a)
    hi, lo = (a, b) if a > b else (b, a)
    return D(hi) + ex_log1p_exp_neg(D(lo) - D(hi))


def ex_lde(a: float, b: float):
    """log(exp(a)-exp(b)) for a >= b."""
    if a == b:
        return -INF
    if b == -INF:
        return D(a)
    return D(a) + ex_log1m_exp_d(D(b) - D(a))


def sens_sum(a: float, b: float, diff: bool = False) -> float:
    """Unavoidable absolute error scale from rounding the difference x = lo - hi of the two double operands before it is
    exponentiated: |x| e^x / (1 +- e^x)  (<= 1/e for sums, <= 1 for differences)."""
    hi, lo = max(a, b), min(a, b)
    if lo == -INF or hi == lo:
        return 0.0
    x = lo - hi
    e = math.exp(x)
    return abs(x) * e / ((1 - e) if diff else (1 + e)) if e < 1 else 1.0


def mag_class(x: float) -> str:
    if x == -INF:
        return "-inf"
    a = abs(x)
    s = "+" if x >= 0 else "-"
    if a == 0:
        return "0"
    if a < 1e-12:
        return s + "tiny"
    if a < 1e-3:
        return s + "small"
    if a <= 40:
        return s + "moderate"
    if a <= 745:
        return s + "large"
    if a <= 1e6:
        return s + "huge"
    return s + "extreme"


def gen_logval(rng) -> float:
    r = rng.integers(0, 10)
    if r == 0:
        return float(rng.uniform(-745, 745))
    if r == 1:
        return float(rng.uniform(-40, 40))
    if r == 2:
        return float(rng.choice([-1, 1]) * 10 ** rng.uniform(0, 5))
    if r == 3:
        return float(rng.choice([-1, 1]) * 10 ** rng.uniform(5, 300))
    if r == 4:
        return float(rng.choice([-1, 1]) * 10 ** rng.uniform(-20, 0))
    if r == 5:
        return float(rng.choice([-1, 1]) * 10 ** rng.uniform(-300, -20))
    if r == 6:
        return float(rng.choice([0.0, -math.log(2), math.log(2), -745.0, 709.0, 710.0, -708.0, 1.0, -1.0]))
    if r == 7:
        return float(rng.normal() * 3)
    if r == 8:
        return float(rng.uniform(-800, -700))
    return float(rng.uniform(700, 800))


def gen_pair(rng) -> tuple[float, float, str]:
    a = gen_logval(rng)
    r = rng.integers(0, 8)
    if r == 0:
        return a, a, "equal"
    if r == 1:
        b = float(np.nextafter(a, rng.choice([-INF, INF])))
        return a, b, "adjacent"
    if r == 2:
        b = a + float(rng.choice([-1, 1]) * 10 ** rng.uniform(-12, 1))
        return a, b, "near"
    if r == 3:
        return a, -INF, "zero-weight"
    if r == 4:
        return -INF, a, "zero-weight"
    return a, gen_logval(rng), "unrelated"


def gen_cases(tier: str, seed: int):
    n_batches = {"quick": 64, "thorough": 4000}[tier]
    kinds = ["log1p_exp", "log1m_exp", "log_sum_exp", "log_diff_exp", "lrf_binary", "lrf_mixed", "lrf_compare",
             "lrf_iadd", "lrf_program"]
    yield {"kind": "directed", "seed": [seed, -1], "n": 1}
    for b in range(n_batches):
        yield {"kind": kinds[b % len(kinds)], "seed": [seed, b], "n": 400}


def close(obs, name: str, got, exact, scale_args, detail) -> None:
    """Judge one float result against an exact Decimal / +-inf."""
    obs.count("judged")
    obs.count(f"judged.{name}")
    if isinstance(got, (np.floating, np.integer)):
        got = float(got)
    if isinstance(exact, float):  # +-inf expected exactly
        if not (got == exact):
            obs.violation(f"{name}:wrong-infinite-result", f"{name}{detail} = {got!r}, exact {exact!r}", args=detail)
        return
    if got != got:
        obs.violation(f"{name}:nan", f"{name}{detail} returned NaN, exact {exact:.20E}", args=detail)
        return
    ex_f = float(exact) if abs(exact) < Decimal("1e308") else math.copysign(INF, exact)
    if got in (INF, -INF):
        if got != ex_f:
            obs.violation(f"{name}:spurious-infinity", f"{name}{detail} = {got!r}, exact {exact:.20E}", args=detail)
        return
    scale = max([abs(exact)] + [abs(D(s)) for s in scale_args if s not in (INF, -INF)])
    tol = Decimal(K * EPS) * scale + Decimal("1e-305")
    err = abs(D(got) - exact)
    if scale > 0:
        obs.maxi(f"ulps.{name}", float(err / (Decimal(EPS) * scale + Decimal("1e-320"))), detail)
    if err > tol:
        rel = float(err / scale) if scale > 0 else float(err)
        obs.violation(
            f"{name}:inaccurate",
            f"{name}{detail} = {got!r}, exact {exact:.25E}, error {float(err):.3e} = {rel / EPS:.3g} eps of scale",
            args=detail,
        )


def expect_no_exception(obs, name, fn, detail):
    try:
        return True, fn()
    except Exception as e:  # noqa: BLE001
        obs.count("judged")
        obs.violation(f"{name}:raises-{type(e).__name__}", f"{name}{detail} raised {type(e).__name__}: {e}", args=detail)
        return False, None


def directed(obs) -> None:
    """Fixed inputs: the design-phase witnesses and the recorded finding, exercised on every run."""
    from mici import utils
    from mici.utils import LogRepFloat

    for x in (-1e-10, -1e-20, -1e-300, -0.5, -math.log(2), -0.6931471805599454, -0.70, -40.0):
        ok, r = expect_no_exception(obs, "log1m_exp", lambda x=x: utils.log1m_exp(x), (x,))
        if ok:
            close(obs, "log1m_exp", r, ex_log1m_exp(x), [], (x,))
    acc = LogRepFloat(log_val=-1001.0)
    acc += LogRepFloat(log_val=-1000.0)
    close(obs, "LogRepFloat.iadd-directed", acc.log_val, ex_lse(-1001.0, -1000.0), [], (-1001.0, -1000.0))
    for lv in (-800.0, -1e6):
        x = LogRepFloat(log_val=lv)
        for nm, got, want in (("gt", x > 0, True), ("eq", x == 0.0, False), ("ne", x != 0, True), ("le", x <= 0, False),
                              ("lt-right", 0 < x, True)):
            obs.count("judged")
            if bool(got) != want:
                obs.violation("LogRepFloat.mixed-compare:wrong-order:underflow",
                              f"LogRepFloat(log_val={lv}) {nm} 0 = {got!r}, real arithmetic says {want}")
    for lv in (800.0,):
        x = LogRepFloat(log_val=lv)
        for nm, got, want in (("gt", x > 1e300, True), ("lt", x < 1e300, False), ("ge-right", 1.0 >= x, False)):
            obs.count("judged")
            if bool(got) != want:
                obs.violation("LogRepFloat.mixed-compare:wrong-order:overflow", f"LogRepFloat(log_val={lv}) {nm}: {got!r}")
    obs.token("directed")


def run_case(case, obs) -> None:  # noqa: C901, PLR0912, PLR0915
    from mici import utils
    from mici.utils import LogRepFloat

    rng = np.random.default_rng([abs(int(v)) for v in case["seed"]])
    kind = case["kind"]
    if kind == "directed":
        directed(obs)
        return
    obs.sample({"kind": kind, "first_operands": [gen_logval(np.random.default_rng(case["seed"])) for _ in range(3)]})
    for _ in range(case["n"]):
        if kind == "log1p_exp":
            x = gen_logval(rng)
            ok, r = expect_no_exception(obs, "log1p_exp", lambda x=x: utils.log1p_exp(x), (x,))
            if ok:
                close(obs, "log1p_exp", r, ex_log1p_exp(x), [], (x,))
                obs.token("log1p_exp", mag_class(x))
        elif kind == "log1m_exp":
            x = -abs(gen_logval(rng))
            if rng.integers(0, 3) == 0:  # dense around the branch point -log 2
                x = -math.log(2) + float(rng.choice([-1, 1]) * 10 ** rng.uniform(-16, -0.5))
            if x == 0:
                continue
            ok, r = expect_no_exception(obs, "log1m_exp", lambda x=x: utils.log1m_exp(x), (x,))
            if ok:
                close(obs, "log1m_exp", r, ex_log1m_exp(x), [], (x,))
                obs.token("log1m_exp", mag_class(x), x > -math.log(2))
        elif kind == "log_sum_exp":
            a, b, rel = gen_pair(rng)
            ok, r = expect_no_exception(obs, "log_sum_exp", lambda a=a, b=b: utils.log_sum_exp(a, b), (a, b))
            if ok:
                close(obs, "log_sum_exp", r, ex_lse(a, b), [max(a, b), sens_sum(a, b)], (a, b))
                obs.token("log_sum_exp", mag_class(a), mag_class(b), rel)
        elif kind == "log_diff_exp":
            a, b, rel = gen_pair(rng)
            if a < b:
                a, b = b, a
            ok, r = expect_no_exception(obs, "log_diff_exp", lambda a=a, b=b: utils.log_diff_exp(a, b), (a, b))
            if ok:
                close(obs, "log_diff_exp", r, ex_lde(a, b), [a, sens_sum(a, b, True)], (a, b))
                obs.token("log_diff_exp", mag_class(a), mag_class(b), rel)
        elif kind == "lrf_binary":
            a, b, rel = gen_pair(rng)
            x, y = LogRepFloat(log_val=a), LogRepFloat(log_val=b)
            op = ["add", "sub", "mul", "div"][rng.integers(0, 4)]
            if op == "sub" and a < b:
                x, y, a, b = y, x, b, a
            if op == "div" and b == -INF:
                continue
            if op in ("mul", "div") and -INF in (a, b) and (op == "mul"):
                # 0 * w = 0 : -inf + finite
                pass
            ok, r = expect_no_exception(obs, f"LogRepFloat.{op}", lambda: getattr(operator, {"add": "add", "sub": "sub", "mul": "mul", "div": "truediv"}[op])(x, y), (a, b))
            if not ok:
                continue
            if not isinstance(r, LogRepFloat):
                obs.count("judged")
                obs.violation(f"LogRepFloat.{op}:result-type", f"LogRepFloat {op} LogRepFloat returned {type(r).__name__} for log-values {(a, b)}")
                continue
            if op == "add":
                ex = ex_lse(a, b)
            elif op == "sub":
                ex = ex_lde(a, b)
            elif op == "mul":
                ex = -INF if -INF in (a, b) else D(a) + D(b)
            else:
                ex = -INF if a == -INF else D(a) - D(b)
            # achievable accuracy: eps * (larger operand + result) for sums and differences (the smaller operand enters
            # only through exp(lo - hi) <= 1), eps * (|a| + |b|) for products and ratios
            close(obs, f"LogRepFloat.{op}", r.log_val, ex, [max(a, b), sens_sum(a, b, op == "sub")] if op in ("add", "sub") else [a, b], (a, b))
            obs.token("lrf", op, mag_class(a), mag_class(b), rel)
            # same operands through the plain-value constructor when representable
            if abs(a) < 600 and a != -INF:
                xv = LogRepFloat(val=math.exp(a))
                close(obs, "LogRepFloat(val).log_val", xv.log_val, D(math.exp(a)).ln(), [], (a,))
        elif kind == "lrf_mixed":
            a = float(rng.uniform(-700, 700)) if rng.integers(0, 4) else float(rng.normal() * 5)
            if rng.integers(0, 12) == 0:
                a = -INF
            x = LogRepFloat(log_val=a)
            c = float(rng.choice([-1, 1]) * 10 ** rng.uniform(-8, 8)) if rng.integers(0, 6) else float(rng.integers(-3, 4))
            op = ["add", "radd", "sub", "rsub", "mul", "rmul", "div", "rdiv", "neg"][rng.integers(0, 9)]
            xv = Decimal(0) if a == -INF else dexp(D(a))
            cd = D(c)
            try:
                if op == "add":
                    r, ex = x + c, xv + cd
                elif op == "radd":
                    r, ex = c + x, cd + xv
                elif op == "sub":
                    r, ex = x - c, xv - cd
                elif op == "rsub":
                    r, ex = c - x, cd - xv
                elif op == "mul":
                    r, ex = x * c, xv * cd
                elif op == "rmul":
                    r, ex = c * x, cd * xv
                elif op == "div":
                    if c == 0:
                        continue
                    r, ex = x / c, xv / cd
                elif op == "rdiv":
                    if a == -INF:
                        continue
                    r, ex = c / x, cd / xv
                else:
                    r, ex = -x, -xv
            except Exception as e:  # noqa: BLE001
                obs.count("judged")
                obs.violation(f"LogRepFloat.mixed-{op}:raises-{type(e).__name__}", f"LogRepFloat(log_val={a!r}) {op} {c!r} raised {e!r}")
                continue
            if ex != 0 and not (Decimal("1e-300") < abs(ex) < Decimal("1e300")):
                obs.inconc("mixed-result-outside-double-range")
                continue
            if isinstance(r, LogRepFloat):
                r = r.val
            # plain float arithmetic on exp(a): conditioning through exp -> |a| eps, plus cancellation
            scale = max(abs(ex), abs(xv), abs(cd)) * (1 + abs(D(a) if a != -INF else 0))
            err = abs(D(r) - ex) if r == r and r not in (INF, -INF) else Decimal("Infinity")
            obs.count("judged")
            obs.count("judged.mixed")
            if err > Decimal(K * EPS) * scale + Decimal("1e-305"):
                obs.violation(f"LogRepFloat.mixed-{op}:inaccurate", f"LogRepFloat(log_val={a!r}) {op} {c!r} = {r!r}, exact {ex:.20E}")
            obs.token("mixed", op, mag_class(a), mag_class(c))
        elif kind == "lrf_compare":
            a, b, rel = gen_pair(rng)
            x, y = LogRepFloat(log_val=a), LogRepFloat(log_val=b)
            ops = {"lt": operator.lt, "le": operator.le, "gt": operator.gt, "ge": operator.ge, "eq": operator.eq,
                   "ne": operator.ne}
            for nm, f in ops.items():
                ok, r = expect_no_exception(obs, f"LogRepFloat.{nm}", lambda f=f: f(x, y), (a, b))
                if ok:
                    obs.count("judged")
                    obs.count("judged.compare")
                    if bool(r) != f(a, b):
                        obs.violation(f"LogRepFloat.{nm}:wrong-order", f"LogRepFloat(log_val={a!r}) {nm} LogRepFloat(log_val={b!r}) = {r!r}")
            obs.token("cmp", mag_class(a), mag_class(b), rel)
            # mixed comparison with a plain number c >= 0 or negative
            c = float(10 ** rng.uniform(-300, 300)) if rng.integers(0, 4) else float(rng.choice([0.0, 1.0, -1.0, 0.5, -1e-300]))
            if c > 0:
                lc = D(c).ln()
                da = Decimal("-Infinity") if a == -INF else D(a)
                if a != -INF and abs(da - lc) <= Decimal(64 * EPS) * max(abs(lc), 1):
                    obs.inconc("near-tie-mixed-comparison")
                    continue
                truth = {"lt": da < lc, "le": da <= lc, "gt": da > lc, "ge": da >= lc, "eq": False, "ne": True}
            elif c == 0:
                z = a == -INF
                truth = {"lt": False, "le": z, "gt": not z, "ge": True, "eq": z, "ne": not z}
            else:
                truth = {"lt": False, "le": False, "gt": True, "ge": True, "eq": False, "ne": True}
            for nm, f in ops.items():
                for side in ("left", "right"):
                    ok, r = expect_no_exception(
                        obs, f"LogRepFloat.mixed-{nm}", (lambda f=f: f(x, c)) if side == "left" else (lambda f=f: f(c, x)), (a, c))
                    if not ok:
                        continue
                    want = truth[nm] if side == "left" else truth[{"lt": "gt", "gt": "lt", "le": "ge", "ge": "le", "eq": "eq", "ne": "ne"}[nm]]
                    obs.count("judged")
                    obs.count("judged.compare-mixed")
                    if bool(r) != bool(want):
                        under = "underflow" if a < -745 else ("overflow" if a > 709 else "in-range")
                        obs.violation(
                            f"LogRepFloat.mixed-compare:wrong-order:{under}",
                            f"{'LogRepFloat(log_val=%r) %s %r' % (a, nm, c) if side == 'left' else '%r %s LogRepFloat(log_val=%r)' % (c, nm, a)} = {r!r}, real arithmetic says {want}",
                        )
            obs.token("cmp-mixed", mag_class(a), mag_class(c) if c > 0 else str(c))
        elif kind == "lrf_program":
            # histories mixing binary operators and in-place accumulation on a small pool of weights: results must be
            # right and operands (and every other live weight) must keep their value (no aliasing through results)
            base = gen_logval(rng)
            lvs = [(-INF if rng.integers(0, 4) == 0 else base + float(rng.uniform(-5, 5))) for _ in range(4)]
            pool = [LogRepFloat(log_val=v) for v in lvs]
            exact = [None if v == -INF else D(v) for v in lvs]  # exact log-values (None = zero weight)

            def ex_add(a, b):
                if a is None:
                    return b
                if b is None:
                    return a
                hi, lo = (a, b) if a > b else (b, a)
                return hi + ex_log1p_exp_neg(lo - hi)

            hist_ops = []
            for _step in range(int(rng.integers(2, 9))):
                i, j = int(rng.integers(0, len(pool))), int(rng.integers(0, len(pool)))
                op = str(rng.choice(["add", "iadd", "mul", "radd0", "iadd_plain", "read", "read"]))
                hist_ops.append((op, i, j))
                try:
                    if op == "add":
                        pool.append(pool[i] + pool[j])
                        exact.append(ex_add(exact[i], exact[j]))
                    elif op == "mul":
                        pool.append(pool[i] * pool[j])
                        exact.append(None if exact[i] is None or exact[j] is None else exact[i] + exact[j])
                    elif op == "iadd_plain":
                        c = 0.0 if exact[i] is None and rng.integers(0, 2) else float(rng.uniform(0.2, 3.0))
                        if exact[i] is not None and abs(exact[i]) < 600:
                            c *= math.exp(float(exact[i]))
                        hist_ops[-1] = (op, i, c)
                        pool[i] += c
                        if c > 0:
                            exact[i] = ex_add(exact[i], D(c).ln())
                    elif op == "read":
                        how = int(rng.integers(0, 6))
                        hist_ops[-1] = (op, i, ["val", "str", "array", "add1", "lt1", "repr"][how])
                        w = pool[i]
                        _ = (w.val, str(w), np.array(w), w + 1.0, w < 1.0, repr(w))[how]  # noqa: F841
                    elif op == "radd0":
                        r = 0 + pool[i]
                        if isinstance(r, LogRepFloat):
                            pool.append(r)
                            exact.append(exact[i])
                    else:
                        if i == j:
                            continue
                        pool[i] += pool[j]
                        exact[i] = ex_add(exact[i], exact[j])
                except Exception as e:  # noqa: BLE001
                    obs.count("judged")
                    obs.violation(f"LogRepFloat.program:raises-{type(e).__name__}", f"history {hist_ops} on log-values {lvs} raised {e!r}")
                    break
                if len(pool) > 8:
                    pool, exact = pool[:8], exact[:8]
                for k, (w, ex) in enumerate(zip(pool, exact)):
                    obs.count("judged")
                    obs.count("judged.program")
                    if not isinstance(w, LogRepFloat):
                        continue
                    if ex is None:
                        bad = w.log_val != -INF
                    else:
                        bad = not (abs(D(w.log_val) - ex) <= Decimal(K * EPS * 10) * max(abs(ex), abs(D(base)), Decimal(1))) if w.log_val == w.log_val and abs(w.log_val) != INF else True
                    if not bad and ex is not None and abs(ex) < 600:
                        # the linear value any reader sees (val, str, np.array, mixed arithmetic) is exp(log_val) *now*
                        lin, want = w.val, dexp(ex)
                        obs.count("judged.program-linear")
                        if not (abs(D(lin) - want) <= Decimal(K * EPS * 10) * (1 + abs(ex) + abs(D(base))) * want):
                            obs.violation("LogRepFloat.program:linear-value-stale",
                                          f"after history {hist_ops} on initial log-values {lvs} weight #{k} has log_val {w.log_val!r} but "
                                          f"reports linear value {lin!r} (exact {want:.17E})")
                            break
                        if float(np.array(w)) != lin or str(w) != str(lin):
                            obs.violation("LogRepFloat.program:linear-views-disagree",
                                          f"after history {hist_ops}: val {lin!r}, np.array {float(np.array(w))!r}, str {w!s}")
                            break
                    if bad:
                        obs.violation("LogRepFloat.program:value-corrupted",
                                      f"after history {hist_ops} on initial log-values {lvs} weight #{k} has log_val {w.log_val!r}, exact "
                                      f"{'-inf' if ex is None else format(ex, '.17E')} (an operand or an unrelated weight changed: results alias operands?)")
                        break
                else:
                    continue
                break
            obs.token("program", mag_class(base), tuple(sorted({o[0] for o in hist_ops})), -INF in lvs)
        elif kind == "lrf_iadd":
            n = int(rng.integers(1, 50))
            base = gen_logval(rng)
            spread = float(10 ** rng.uniform(-3, 2.5))
            start = base if rng.integers(0, 4) else -INF
            acc = LogRepFloat(log_val=start)
            ex = Decimal(0)  # exact sum of exp(l - base)
            if start != -INF:
                ex += 1
            seq = []
            ok = True
            for _j in range(n):
                r = rng.integers(0, 10)
                if r == 0:
                    term, lv = LogRepFloat(log_val=-INF), -INF
                elif r == 1 and -700 < base < 700:
                    v = float(math.exp(base) * rng.uniform(0, 2))
                    term, lv = v, (math.log(v) if v > 0 else -INF)
                    if v > 0:
                        lvd = D(v).ln()
                elif r == 2:
                    term, lv = 0, -INF
                else:
                    lv = base + float(rng.uniform(-spread, spread))
                    term = LogRepFloat(log_val=lv)
                seq.append(lv)
                if lv != -INF:
                    ex += dexp((lvd if (r == 1 and -700 < base < 700) else D(lv)) - D(base))
                try:
                    acc += term
                except Exception as e:  # noqa: BLE001
                    obs.count("judged")
                    obs.violation(f"LogRepFloat.iadd:raises-{type(e).__name__}", f"accumulating {term!r} raised {e!r}; log-values so far {seq}")
                    ok = False
                    break
                if not isinstance(acc, LogRepFloat):
                    obs.count("judged")
                    obs.violation("LogRepFloat.iadd:result-type", f"+= returned {type(acc).__name__}")
                    ok = False
                    break
            if not ok:
                continue
            obs.count("judged")
            obs.count("judged.iadd")
            obs.count("iadd_terms", n)
            if ex == 0:
                if acc.log_val != -INF:
                    obs.violation("LogRepFloat.iadd:zero-sum", f"sum of zero weights has log_val {acc.log_val!r}")
                continue
            exact = D(base) + ex.ln()
            scale = max(abs(exact), abs(D(base)), Decimal(1))
            err = abs(D(acc.log_val) - exact) if acc.log_val == acc.log_val and abs(acc.log_val) != INF else Decimal("Infinity")
            obs.maxi("ulps.iadd_per_term", float(err / (Decimal(EPS) * scale)) / (n + 1), None)
            if err > Decimal(K * EPS * (n + 1)) * scale:
                under = "underflow" if base < -745 else ("overflow" if base > 709 else "in-range")
                obs.violation(
                    f"LogRepFloat.iadd:inaccurate:{under}",
                    f"in-place accumulation of log-values {seq[:8]}... from {start!r}: log_val {acc.log_val!r}, exact {exact:.20E}",
                )
            obs.token("iadd", mag_class(base), mag_class(spread), n > 10, start == -INF)
