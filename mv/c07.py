"""C07 - component flow maps are the exact flows of their Hamiltonian components."""

from __future__ import annotations

import numpy as np
import scipy.linalg as sla

from mv import zoo

ID = "C07"
LEVEL = "exploration"
RULE = (
    "each case builds one tractable-flow system (Euclidean, Gaussian-split, both constrained density conventions, "
    "Gaussian constrained) with a constant metric of every matrix type including the implicit-size identity, and for "
    "times |t| from 1e-3 to 50 of both signs checks h1_flow (momentum kick by the independent gradient of h1, position "
    "bitwise unchanged) and h2_flow (against the matrix exponential of the linear Hamilton equations built from the "
    "dense metric; h2 conserved; additivity in time; inverse by negative time), and dh2_flow_dmom against the "
    "exponential's blocks (for |t| and for the signed t) and a finite-difference Jacobian; the checks are repeated after "
    "the system's metric has been reassigned (as the metric adapters do). distinct_nontrivial = distinct (system class, metric kind, "
    "time-magnitude class, sign of t)."
)
ASSUMPTIONS = [
    "scipy.linalg.expm of the dense generator is the exact-flow reference (relative tolerance 1e-8 * (1+|t|))",
    "h1 gradient reference: analytic zoo gradient (Euclidean / Gaussian / Hausdorff-constrained) or finite differences "
    "of the independent h1 (Gram-determinant classes), tolerance 2e-6",
]
REQUIRED = {"flow_calls_checked": 400}
BUDGET_S = {"quick": 60, "thorough": 600}


def shard_setup(obs) -> None:
    from mv import common

    common.setup_paths()


def gen_cases(tier: str, seed: int):
    n = {"quick": 300, "thorough": 40000}[tier]
    rng = np.random.default_rng([seed, 7])
    for k in zoo.TRACTABLE:
        for mk in zoo.CONST_METRICS:
            spec = zoo.random_sys_spec(rng, kinds=(k,), dim_range=(2, 4))
            spec["metric"] = mk
            yield {"spec": spec, "seed": [seed, int(rng.integers(0, 2**31))]}
    for _ in range(n):
        spec = zoo.random_sys_spec(rng, kinds=zoo.TRACTABLE)
        yield {"spec": spec, "seed": [seed, int(rng.integers(0, 2**31))]}


def tclass(t):
    a = abs(t)
    return "tiny" if a < 1e-2 else ("small" if a < 0.5 else ("unit" if a < 5 else "long"))


def rel(a, b, scale=None):
    a, b = np.asarray(a, dtype=float), np.asarray(b, dtype=float)
    if a.shape != b.shape:
        return np.inf
    sc = max(1.0, float(np.max(np.abs(b), initial=0.0))) if scale is None else scale
    return float(np.max(np.abs(a - b), initial=0.0)) / sc


def run_case(case, obs) -> None:  # noqa: C901, PLR0915
    spec = case["spec"]
    rng = np.random.default_rng([abs(int(s)) for s in case["seed"]])
    m = zoo.Model(spec)
    s = m.system
    cname = type(s).__name__
    mk = spec["metric"]
    dim = m.dim
    gaussian = spec["sys"] in ("gaussian", "gaussian_constrained")
    minv = np.linalg.inv(m.metric_dense)
    gen = np.zeros((2 * dim, 2 * dim))
    gen[:dim, dim:] = minv
    if gaussian:
        gen[dim:, :dim] = -np.identity(dim)
    q, p = m.random_point(rng)
    times = [float(rng.choice([-1, 1]) * 10 ** rng.uniform(-3, np.log10(50))) for _ in range(4)]

    def viol(key, msg):
        obs.violation(f"{key}:{cname}", f"{msg}; metric={mk} spec={spec}")

    def check_times(times, phase):
        nonlocal gen, minv
        for t in times:
            # ---------------- h1 flow
            st = m.state(q, p)
            pos_before = st.pos.copy()
            s.h1_flow(st, t)
            obs.count("flow_calls_checked")
            if spec["sys"] in ("euclidean", "gaussian", "constrained"):
                g = m.target.grad(q)
            else:
                g = zoo.fd_grad(m.ref_h1, q, 1e-4)
            e = rel(st.mom, p - t * g)
            obs.maxi("relerr.h1_flow.mom", e)
            if e > 2e-6 * (1 + abs(t)):
                viol("h1_flow:momentum", f"h1_flow(t={t:.4g}) momentum differs from p - t grad h1 by {e:.3e}")
            if not np.array_equal(st.pos, pos_before):
                viol("h1_flow:position-changed", f"h1_flow(t={t:.4g}) changed the position")
            # repeated kicks on the same state object compose additively and the negative time undoes them (the
            # integrators apply adjacent half kicks at one position)
            ts = [t, float(rng.uniform(-1, 1) * t), float(rng.uniform(-1, 1) * t)]
            total = t
            for k, tk in enumerate(ts[1:], start=2):
                s.h1_flow(st, tk)
                total += tk
                obs.count("flow_calls_checked")
                obs.count("h1_repeated_kicks")
                e = rel(st.mom, p - total * g)
                if e > 2e-6 * (1 + sum(abs(x) for x in ts)):
                    viol("h1_flow:not-additive", f"kick #{k} on one state: after h1_flow times {ts[:k]} the momentum differs from "
                                                 f"p - (sum t) grad h1 by {e:.3e}")
                    break
            else:
                s.h1_flow(st, -total)
                e = rel(st.mom, p)
                if e > 2e-6 * (1 + sum(abs(x) for x in ts)):
                    viol("h1_flow:not-undone", f"h1_flow times {ts} followed by minus their sum does not restore the momentum: {e:.3e}")
            # ---------------- h2 flow
            st = m.state(q, p)
            h2_before = m.ref_h2(q, p)
            s.h2_flow(st, t)
            obs.count("flow_calls_checked")
            # the component's energy as the system itself computes it (h2 method; evaluated only after the flow ran)
            own_before, own_after = float(s.h2(m.state(q, p))), float(s.h2(st))
            e_own = abs(own_after - own_before) / max(1.0, abs(own_before))
            obs.maxi("relerr.h2_flow.own_energy", e_own)
            if e_own > 1e-8 * (1 + abs(t)):
                viol("h2_flow:own-energy", f"the system's own h2 changes from {own_before:.12g} to {own_after:.12g} along h2_flow(t={t:.4g})")
            z = sla.expm(t * gen) @ np.concatenate([q, p])
            tol = 1e-8 * (1 + abs(t))
            e = max(rel(st.pos, z[:dim]), rel(st.mom, z[dim:]))
            obs.maxi(f"relerr.h2_flow.{tclass(t)}", e)
            if e > tol:
                viol("h2_flow:exact-solution", f"h2_flow(t={t:.4g}) differs from the exact linear flow by {e:.3e}")
            e = abs(m.ref_h2(st.pos, st.mom) - h2_before) / max(1.0, abs(h2_before))
            obs.maxi("relerr.h2_flow.energy", e)
            if e > tol:
                viol("h2_flow:energy", f"h2 not conserved by h2_flow(t={t:.4g}): relative change {e:.3e}")
            # additivity and inverse
            a = float(rng.uniform(-1, 1) * t)
            st2 = m.state(q, p)
            s.h2_flow(st2, a)
            s.h2_flow(st2, t - a)
            e = max(rel(st2.pos, st.pos), rel(st2.mom, st.mom))
            obs.maxi("relerr.h2_flow.additivity", e)
            if e > tol:
                viol("h2_flow:additivity", f"h2_flow({a:.4g}) then h2_flow({t - a:.4g}) != h2_flow({t:.4g}): {e:.3e}")
            s.h2_flow(st, -t)
            e = max(rel(st.pos, q), rel(st.mom, p))
            obs.maxi("relerr.h2_flow.inverse", e)
            if e > tol:
                viol("h2_flow:inverse", f"h2_flow(-t) does not undo h2_flow(t={t:.4g}): {e:.3e}")
            obs.count("flow_calls_checked", 3)
            # ---------------- derivative of the flow w.r.t. momentum
            if m.constrained:
                # the reported derivative must be right for the signed time as well
                dpos_s, dmom_s = s.dh2_flow_dmom(m.state(q, p), t)
                exs = sla.expm(t * gen)
                es = max(rel(np.asarray(dpos_s @ np.identity(dim), dtype=float), exs[:dim, dim:]),
                         rel(np.asarray(dmom_s @ np.identity(dim), dtype=float), exs[dim:, dim:]))
                obs.maxi("relerr.dh2_flow_dmom.signed", es)
                if es > 1e-8 * (1 + abs(t)):
                    viol("dh2_flow_dmom:signed-time", f"dh2_flow_dmom(t={t:.4g}) differs from the exact Jacobian blocks by {es:.3e}")
                st = m.state(q, p)
                dpos, dmom = s.dh2_flow_dmom(st, abs(t))
                ex = sla.expm(abs(t) * gen)
                ident = np.identity(dim)
                got_pos, got_mom = np.asarray(dpos @ ident, dtype=float), np.asarray(dmom @ ident, dtype=float)
                e = max(rel(got_pos, ex[:dim, dim:]), rel(got_mom, ex[dim:, dim:]))
                obs.maxi("relerr.dh2_flow_dmom", e)
                obs.count("flow_derivatives_checked")
                if e > tol:
                    viol("dh2_flow_dmom:blocks", f"dh2_flow_dmom(t={abs(t):.4g}) differs from the exact Jacobian blocks by {e:.3e}")

                def flow_of_mom(pp, tt=abs(t)):
                    sx = m.state(q, pp)
                    s.h2_flow(sx, tt)
                    return np.concatenate([sx.pos, sx.mom])

                jac = zoo.fd_grad(flow_of_mom, p, 1e-3)  # flow is linear in p: FD exact up to rounding
                e = max(rel(got_pos, jac[:dim]), rel(got_mom, jac[dim:]))
                obs.maxi("relerr.dh2_flow_dmom.fd", e)
                if e > 1e-7 * (1 + abs(t)):
                    viol("dh2_flow_dmom:finite-difference", f"dh2_flow_dmom(t={abs(t):.4g}) differs from FD Jacobian of h2_flow by {e:.3e}")
            obs.token(spec["sys"], mk, tclass(t), t > 0)
    check_times(times, "fresh")
    # the metric of a live system is reassigned by the metric adapters at the end of warm-up: flows must follow it
    new_arg, new_dense = zoo.const_metric(str(rng.choice(["diag", "dense", "scaled", "chol_lower", "eig"])), dim, rng)
    s.metric = new_arg
    m.metric_dense = new_dense
    minv = np.linalg.inv(new_dense)
    gen = np.zeros((2 * dim, 2 * dim))
    gen[:dim, dim:] = minv
    if gaussian:
        gen[dim:, :dim] = -np.identity(dim)
    q, p = m.random_point(rng)
    obs.count("metric_reassignments")
    check_times(times[:2], "after-metric-reassignment")
    obs.sample({"sys": spec["sys"], "metric": mk, "dim": dim, "times": times})
