"""C14 - sampling is reproducible and independent of process scheduling."""

from __future__ import annotations

import shutil
import tempfile

import numpy as np

from mv import c13

ID = "C14"
LEVEL = "exploration"
RULE = (
    "cases: (schedule) one seeded configuration (3-5 chains; single and multi-stage; none / step-size / step-size + "
    "variance adapters; generator types PCG64, Philox, MT19937, SFC64, legacy RandomState; initial states with and "
    "without momentum) is run sequentially and with n_process 2, 3, 4 under per-chain delay patterns (sleeps inside the "
    "gradient function keyed by chain tag and iteration) that change which worker picks up which chain and the "
    "completion order; all runs must be bitwise equal in traces, statistics and final states; the observed chain->worker "
    "assignment and completion order of every parallel run are extracted from the per-process logs. (indep) chain c of "
    "an n-chain run must equal chain c of an m-chain run and be unchanged when the other chains start elsewhere. "
    "(streams) the generator state snapshot taken at the start of every iteration of every chain and stage must be "
    "duplicate free and each iteration must advance it. distinct_nontrivial = distinct (kind, generator, adapters, "
    "stages, n_process, delay pattern, observed assignment, observed completion order)."
)
ASSUMPTIONS = [
    "schedule coverage is what the delay patterns produce on this machine; distinct assignments / completion orders seen "
    "are listed in the evidence and a run that saw fewer than 2 of either is inconclusive",
    "bitwise equality of numpy arrays is the comparison",
]
REQUIRED = {"parallel_runs": 20, "snapshots_checked": 500, "independence_pairs": 10}
BUDGET_S = {"quick": 300, "thorough": 2400}
MAX_PARALLEL = 4
SHARDS_PER_SLOT = 3


def shard_setup(obs) -> None:
    from mv import common

    common.setup_paths()


def delay_pattern(name: str, n_chain: int, total_iter: int) -> list:
    d = 0.04
    if name == "none" or total_iter == 0:
        return []
    if name == "first-slow":
        return [[[0, 0], 3 * d]]
    if name == "last-slow":
        return [[[n_chain - 1, 0], 3 * d]]
    if name == "odd-slow":
        return [[[c, 0], 2 * d] for c in range(1, n_chain, 2)]
    if name == "staggered":
        return [[[c, 0], d * (n_chain - c)] for c in range(n_chain)]
    if name == "late-hiccup":
        return [[[c, max(total_iter - 1, 0)], d * (c + 1)] for c in range(n_chain)]
    raise ValueError(name)


PATTERNS = ("none", "first-slow", "last-slow", "odd-slow", "staggered", "late-hiccup")


def gen_cases(tier: str, seed: int):
    n = {"quick": 30, "thorough": 500}[tier]
    rng = np.random.default_rng([seed, 14])
    for i in range(n):
        adapters, stager = [([], None), (["step"], None), (["step", "var"], [2, 1, 1, 2.0]), (["step"], "warmup")][i % 4]
        n_warm = int(rng.choice([3, 5, 8])) if adapters else int(rng.choice([0, 0, 3]))
        cfg = {"n_chain": int(rng.integers(3, 6)), "n_warm": n_warm, "n_main": int(rng.choice([2, 4, 6])), "adapters": adapters,
               "stager": stager, "seed": int(rng.integers(0, 10**6)), "model_seed": int(rng.integers(0, 100)),
               "dim": int(rng.integers(1, 4)), "trace": ["pos", "scalars"], "trace_warm_up": bool(rng.integers(0, 2)),
               "transition": ["static", "multinomial", "random", "slice"][i % 4], "init": ["state", "state_nomom"][int(rng.integers(0, 2))],
               "rng": ["pcg64", "philox", "mt19937", "sfc64", "randomstate"][i % 5]}
        runs = []
        k = 3 if tier == "quick" else 5
        for _ in range(k):
            runs.append({"n_process": int(rng.choice([2, 2, 3, 4])), "pattern": str(rng.choice(PATTERNS))})
        yield {"kind": "schedule", "cfg": cfg, "runs": runs, "seed": [seed, i]}
    m = {"quick": 24, "thorough": 480}[tier]
    for i in range(m):
        cfg = {"n_chain": 2, "n_warm": 0, "n_main": int(rng.choice([3, 5])), "adapters": [], "seed": int(rng.integers(0, 10**6)),
               "model_seed": int(rng.integers(0, 100)), "dim": 2, "trace": ["pos"], "transition": ["static", "multinomial", "slice"][i % 3],
               "init": ["state", "state", "array"][i % 3], "rng": ["pcg64", "philox", "mt19937", "sfc64"][i % 4]}
        yield {"kind": "indep", "cfg": cfg, "m": int(rng.integers(3, 5)), "seed": [seed, 1000 + i]}


def schedule_signature(res, cfg):
    """(assignment, completion order) of the last stage with iterations, from the per-process logs."""
    ends = [r for r in res["recs"] if r["kind"] == "end"]
    if not ends:
        return None, None
    last_iter = max(r["iter"] for r in ends)
    final = [r for r in ends if r["iter"] == last_iter]
    pids = []
    for r in sorted(final, key=lambda r: r["tag"]):
        if r["pid"] not in pids:
            pids.append(r["pid"])
    assign = tuple(pids.index(r["pid"]) for r in sorted(final, key=lambda r: r["tag"]))
    order = tuple(r["tag"] for r in sorted(final, key=lambda r: r["t"]))
    return assign, order


def check_streams(obs, res, label):
    starts = [r for r in res["recs"] if r["kind"] == "start"]
    ends = {(r["tag"], r["iter"]): r for r in res["recs"] if r["kind"] == "end"}
    seen = {}
    for r in sorted(starts, key=lambda r: (r["tag"], r["iter"])):
        obs.count("snapshots_checked")
        key = r["rng"]
        if key is None:
            obs.inconc("generator-state-unavailable")
            return
        if key in seen:
            other = seen[key]
            what = "same chain" if other[0] == r["tag"] else "different chains"
            obs.violation(f"stream-replayed:{what}:{label}",
                          f"generator state at the start of iteration {r['iter']} of chain {r['tag']} equals the state at the start of "
                          f"iteration {other[1]} of chain {other[0]} ({what})")
            return
        seen[key] = (r["tag"], r["iter"])
        e = ends.get((r["tag"], r["iter"]))
        if e is not None and e["rng_after"] == key:
            obs.violation(f"stream-not-advanced:{label}", f"iteration {r['iter']} of chain {r['tag']} made no draw from its generator")
            return


def case_schedule(case, obs) -> None:
    from mv import samp

    cfg = dict(case["cfg"])
    workdir = tempfile.mkdtemp(prefix="mv-c14-")
    try:
        try:
            base_res = c13.run_with_alarm(dict(cfg, n_process=1), workdir)
            base = c13.check_run(obs, base_res, dict(cfg, n_process=1), "sequential")
            check_streams(obs, base_res, "sequential")
            rep_res = c13.run_with_alarm(dict(cfg, n_process=1), workdir)
            rep = c13.check_run(obs, rep_res, dict(cfg, n_process=1), "sequential-repeat")
        except c13.RunTimeout:
            obs.inconc("run-timeout")
            return
        if base is None:
            return
        if rep is not None and any(not c13._same(base[k], rep[k]) for k in base):  # noqa: SLF001
            obs.violation("not-reproducible:sequential", f"two sequential runs with the same seed differ; cfg={cfg}")
        total = cfg["n_warm"] + cfg["n_main"]
        for run in case["runs"]:
            mcfg = dict(cfg, n_process=run["n_process"], delays=delay_pattern(run["pattern"], cfg["n_chain"], total))
            try:
                res = c13.run_with_alarm(mcfg, workdir)
            except c13.RunTimeout:
                obs.inconc("run-timeout:parallel")
                continue
            label = f"n_process={run['n_process']}"
            flat = c13.check_run(obs, res, mcfg, label)
            obs.count("parallel_runs")
            check_streams(obs, res, "parallel")
            assign, order = schedule_signature(res, cfg)
            obs.add_to_set("assignments_observed", [cfg["n_chain"], run["n_process"], assign])
            obs.add_to_set("completion_orders_observed", [cfg["n_chain"], order])
            obs.add_to_set("worker_pid_counts", len({r["pid"] for r in res["recs"]}))
            if flat is not None:
                bad = [k for k in base if k not in flat or not c13._same(base[k], flat[k])]  # noqa: SLF001
                if bad:
                    obs.violation(f"schedule-dependent-output:{'multi-stage' if cfg['n_warm'] else 'single-stage'}",
                                  f"{bad[0]} (and {len(bad) - 1} more) differ between the sequential run and n_process={run['n_process']} with "
                                  f"delay pattern {run['pattern']} (assignment {assign}, completion order {order}); cfg={cfg}")
            obs.token("schedule", cfg["rng"], tuple(cfg["adapters"]), cfg["n_warm"] > 0, run["n_process"], run["pattern"], assign, order)
            samp.cleanup(res)
        obs.sample({"cfg": cfg, "runs": case["runs"]})
    finally:
        shutil.rmtree(workdir, ignore_errors=True)


def case_indep(case, obs) -> None:
    from mv import samp

    cfg = dict(case["cfg"], n_process=1)
    workdir = tempfile.mkdtemp(prefix="mv-c14-")
    try:
        try:
            a = c13.run_with_alarm(cfg, workdir)
            big = dict(cfg, n_chain=case["m"])
            b = c13.run_with_alarm(big, workdir)
            moved = dict(big, init_shift={str(c): 1.5 for c in range(1, case["m"])})
            c = c13.run_with_alarm(moved, workdir)
        except c13.RunTimeout:
            obs.inconc("run-timeout")
            return
        fa = c13.check_run(obs, a, cfg, "indep-n")
        fb = c13.check_run(obs, b, big, "indep-m")
        fc = c13.check_run(obs, c, moved, "indep-moved")
        if fa is None or fb is None or fc is None:
            return
        obs.count("independence_pairs")
        kind = "array-init" if cfg["init"] == "array" else "state-init"
        for ch in range(cfg["n_chain"]):
            keys = [k for k in fa if k.endswith(f":{ch}")]
            if any(not c13._same(fa[k], fb[k]) for k in keys):  # noqa: SLF001
                obs.violation(f"chain-count-dependence:{kind}",
                              f"chain {ch} of a {cfg['n_chain']}-chain run differs from chain {ch} of a {case['m']}-chain run with the same seed "
                              f"and start ({kind}, generator {cfg['rng']}, no adapters)")
                break
        keys0 = [k for k in fb if k.endswith(":0")]
        if any(not c13._same(fb[k], fc[k]) for k in keys0):  # noqa: SLF001
            obs.violation(f"other-chain-start-dependence:{kind}", f"chain 0 changes when the other chains start elsewhere ({kind}, {cfg['rng']})")
        obs.token("indep", cfg["rng"], cfg["transition"], kind, case["m"])
        for r in (a, b, c):
            samp.cleanup(r)
    finally:
        shutil.rmtree(workdir, ignore_errors=True)


def run_case(case, obs) -> None:
    if case["kind"] == "schedule":
        case_schedule(case, obs)
    else:
        case_indep(case, obs)


def finalize(merged, tier):  # noqa: ARG001
    out = {"inconclusive": []}
    assigns = merged["sets"].get("assignments_observed", set())
    orders = merged["sets"].get("completion_orders_observed", set())
    if len(assigns) < 2:
        out["inconclusive"].append(f"only {len(assigns)} distinct chain->worker assignment(s) observed")
    if len(orders) < 2:
        out["inconclusive"].append(f"only {len(orders)} distinct completion order(s) observed")
    return out
