"""Generator of (mici Matrix, dense shadow) pairs and operator programs (C10 / C19 / C11).

A Node carries the real object ``m``, the independent dense shadow ``d``, a JSON-able
description, the caller-supplied arrays (for the immutability monitor) and the
*mathematical* attributes known from how it was built (sym / pd / inv).
"""

from __future__ import annotations

import numpy as np
import scipy.linalg as sla

MAX_COND = 1e4

# memory layout of the arrays handed to constructors: "C", "F" (Fortran order), "S" (strided view of a larger
# buffer) or "mix" (cycles through the three).  Values never depend on it, so two leaves built from the same seed
# under different layouts have equal parameters.
LAYOUT = {"mode": "mix", "n": 0}


def lay(a):
    a = np.array(a, dtype=float, copy=True)
    mode = LAYOUT["mode"]
    if mode == "mix":
        LAYOUT["n"] += 1
        mode = "CFS"[LAYOUT["n"] % 3]
    if mode == "F" and a.ndim == 2:
        return np.asfortranarray(a)
    if mode == "S":
        big = np.zeros(tuple(2 * k for k in a.shape))
        view = big[tuple(slice(None, None, 2) for _ in a.shape)]
        view[...] = a
        return view
    return a


class Node:
    def __init__(self, m, d, desc, *, sym=False, pd=False, inv=False, supplied=(), parts=()) -> None:
        self.m, self.d, self.desc = m, np.array(d, dtype=float), desc
        self.sym, self.pd, self.inv = sym or pd, pd, inv or pd
        self.supplied = list(supplied)  # arrays handed to constructors by "the caller"
        self.parts = list(parts)  # child nodes (operands)

    @property
    def square(self):
        return self.d.shape[0] == self.d.shape[1]

    def all_supplied(self):
        out = list(self.supplied)
        for p in self.parts:
            out.extend(p.all_supplied())
        return out

    def all_nodes(self):
        out = [self]
        for p in self.parts:
            out.extend(p.all_nodes())
        return out


def _spd(rng, n, lo=0.5, hi=2.5):
    q, _ = np.linalg.qr(rng.standard_normal((n, n)))
    lam = rng.uniform(lo, hi, n)
    a = (q * lam) @ q.T
    return (a + a.T) / 2, q, lam


def _wellcond(rng, n):
    """Random well-conditioned non-symmetric square array."""
    for _ in range(50):
        a = rng.standard_normal((n, n)) + np.identity(n) * rng.choice([-1, 1]) * 1.5
        if np.linalg.cond(a) < 50:
            return a
    return np.identity(n) * 1.5


def _tri(rng, n, lower=True):
    a = np.tril(rng.standard_normal((n, n)) * 0.5, -1) + np.diag(rng.uniform(0.6, 1.8, n) * rng.choice([-1, 1], n))
    return a if lower else a.T.copy()


PD_LEAVES = ("identity", "pos_scaled", "pos_diag", "tri_fact_pd", "dense_pd", "dense_pd_factor", "dense_pd_product",
             "eig_pd", "softabs", "block_pd", "lowrank_pd_plus", "lowrank_pd_minus")
SYM_LEAVES = ("scaled", "diag", "tri_fact_def", "dense_def", "dense_sym", "dense_sym_eig", "eig_sym", "block_sym",
              "lowrank_sym_plus", "lowrank_sym_minus")
INV_LEAVES = ("tri_lower", "tri_upper", "inv_tri", "dense_sq", "dense_sq_lu", "inv_lu", "orth", "scaled_orth",
              "block_sq", "lowrank_sq_plus", "lowrank_sq_minus")
RECT_LEAVES = ("rect", "block_row", "block_col")
ALL_LEAVES = PD_LEAVES + SYM_LEAVES + INV_LEAVES


def leaf(rng, n: int, kind: str | None = None, depth: int = 0) -> Node:  # noqa: C901, PLR0911, PLR0912, PLR0915
    """Build one square matrix object of size n of the given (or a random) kind."""
    from mici import matrices as mm

    if kind is None:
        kind = str(rng.choice(ALL_LEAVES))
    if depth >= 2 and kind.startswith(("block", "lowrank")):
        kind = str(rng.choice(["dense_pd", "pos_diag", "tri_fact_pd", "eig_pd"]))
    if n == 1 and kind.startswith("block"):
        kind = {"block_pd": "pos_diag", "block_sym": "diag", "block_sq": "dense_sq"}[kind]
    c = lay
    if kind == "identity":
        return Node(mm.IdentityMatrix(n), np.identity(n), [kind, n], pd=True)
    if kind in ("pos_scaled", "scaled"):
        s = float(rng.uniform(0.3, 3.0))
        if kind == "scaled" and rng.integers(0, 2):
            s = -s
        cls = mm.PositiveScaledIdentityMatrix if kind == "pos_scaled" else mm.ScaledIdentityMatrix
        return Node(cls(s, n), s * np.identity(n), [kind, n, s], pd=(kind == "pos_scaled"), sym=True, inv=True)
    if kind in ("pos_diag", "diag"):
        dg = rng.uniform(0.3, 3.0, n)
        if kind == "diag":
            dg = dg * rng.choice([-1, 1], n)
        arr = c(dg)
        cls = mm.PositiveDiagonalMatrix if kind == "pos_diag" else mm.DiagonalMatrix
        return Node(cls(arr), np.diag(dg), [kind, n], pd=(kind == "pos_diag"), sym=True, inv=True, supplied=[arr])
    if kind in ("tri_lower", "tri_upper"):
        lower = kind == "tri_lower"
        t = _tri(rng, n, lower)
        if rng.integers(0, 2):  # supply a full array and let the class mask it
            full = t + (np.triu(rng.standard_normal((n, n)), 1) if lower else np.tril(rng.standard_normal((n, n)), -1))
            arr = c(full)
            return Node(mm.TriangularMatrix(arr, lower=lower), t, [kind, n, "masked"], inv=True, supplied=[arr])
        arr = c(t)
        return Node(mm.TriangularMatrix(arr, lower=lower, make_triangular=False), t, [kind, n, "exact"], inv=True,
                    supplied=[arr])
    if kind == "inv_tri":
        lower = bool(rng.integers(0, 2))
        t = _tri(rng, n, lower)
        masked = bool(rng.integers(0, 2))  # full array handed over: the documented contract is that the other triangle is ignored
        full = t + (np.triu(rng.standard_normal((n, n)), 1) if lower else np.tril(rng.standard_normal((n, n)), -1)) if masked else t
        arr = c(full)
        return Node(mm.InverseTriangularMatrix(arr, lower=lower), np.linalg.inv(t), [kind, n, lower, "masked" if masked else "exact"], inv=True,
                    supplied=[arr])
    if kind in ("tri_fact_pd", "tri_fact_def"):
        lower = bool(rng.integers(0, 2))
        t = _tri(rng, n, lower)
        sign = 1 if kind == "tri_fact_pd" else int(rng.choice([-1, 1]))
        how = int(rng.integers(0, 3))
        if rng.integers(0, 2):  # arbitrary data in the unused triangle of the supplied array
            arr = c(t + (np.triu(rng.standard_normal((n, n)), 1) if lower else np.tril(rng.standard_normal((n, n)), -1)))
        else:
            arr = c(t)
        if how == 0:
            fac, fd, sup = arr, t, [arr]
            kw = {"factor_is_lower": lower}
        elif how == 1:
            fac, fd, sup = mm.TriangularMatrix(arr, lower=lower), t, [arr]
            kw = {}
        else:
            fac, fd, sup = mm.InverseTriangularMatrix(arr, lower=lower), np.linalg.inv(t), [arr]
            kw = {}
        if kind == "tri_fact_pd":
            if how == 0:
                m = mm.TriangularFactoredPositiveDefiniteMatrix(fac, factor_is_lower=lower)
            else:
                m = mm.TriangularFactoredPositiveDefiniteMatrix(fac)
        else:
            m = mm.TriangularFactoredDefiniteMatrix(fac, sign=sign, **kw)
        return Node(m, sign * fd @ fd.T, [kind, n, lower, sign, how], pd=(sign == 1 and kind == "tri_fact_pd"),
                    sym=True, inv=True, supplied=sup)
    if kind in ("dense_pd", "dense_pd_factor", "dense_def"):
        a, _, _ = _spd(rng, n)
        posdef = True if kind != "dense_def" else bool(rng.integers(0, 2))
        sgn = 1 if posdef else -1
        arr = c(sgn * a)
        factor = None
        if kind == "dense_pd_factor" or (kind == "dense_def" and rng.integers(0, 2)):
            factor = mm.TriangularMatrix(np.linalg.cholesky(a), lower=True)
        if kind == "dense_def":
            m = mm.DenseDefiniteMatrix(arr, factor, is_posdef=posdef)
        else:
            m = mm.DensePositiveDefiniteMatrix(arr, factor)
        return Node(m, sgn * a, [kind, n, posdef, factor is not None], pd=(posdef and kind != "dense_def"), sym=True,
                    inv=True, supplied=[arr])
    if kind == "dense_pd_product":
        k = n + int(rng.integers(1, 3))
        rect = rng.standard_normal((n, k))
        for _ in range(30):
            if np.linalg.cond(rect @ rect.T) < 200:
                break
            rect = rng.standard_normal((n, k))
        arr = c(rect)
        if rng.integers(0, 2):
            inner = leaf(rng, k, str(rng.choice(["pos_diag", "dense_pd", "pos_scaled"])), depth + 1)
            return Node(mm.DensePositiveDefiniteProductMatrix(arr, inner.m), rect @ inner.d @ rect.T,
                        [kind, n, k, inner.desc], pd=True, supplied=[arr], parts=[inner])
        return Node(mm.DensePositiveDefiniteProductMatrix(arr), rect @ rect.T, [kind, n, k, None], pd=True,
                    supplied=[arr])
    if kind in ("dense_sq", "dense_sq_lu"):
        a = _wellcond(rng, n)
        arr = c(a)
        if kind == "dense_sq_lu":
            tr = bool(rng.integers(0, 2))
            lu, piv = sla.lu_factor(a.T if tr else a)
            return Node(mm.DenseSquareMatrix(arr, (lu, piv), tr), a, [kind, n, tr], inv=True, supplied=[arr, lu])
        return Node(mm.DenseSquareMatrix(arr), a, [kind, n], inv=True, supplied=[arr])
    if kind == "inv_lu":
        a = _wellcond(rng, n)
        arr = c(a)
        tr = bool(rng.integers(0, 2))
        lu, piv = sla.lu_factor(a.T if tr else a)
        return Node(mm.InverseLUFactoredSquareMatrix(arr, (lu, piv), inv_lu_transposed=tr), np.linalg.inv(a),
                    [kind, n, tr], inv=True, supplied=[arr, lu])
    if kind in ("dense_sym", "dense_sym_eig"):
        _, q, lam = _spd(rng, n)
        lam = lam * rng.choice([-1, 1], n)
        a = (q * lam) @ q.T
        a = (a + a.T) / 2
        arr = c(a)
        if kind == "dense_sym_eig":
            w, v = np.linalg.eigh(a)
            how = int(rng.integers(0, 2))
            ev = c(v) if how == 0 else mm.OrthogonalMatrix(c(v))
            wv = c(w)
            return Node(mm.DenseSymmetricMatrix(arr, ev, wv), a, [kind, n, how], sym=True, inv=True, supplied=[arr, wv])
        return Node(mm.DenseSymmetricMatrix(arr), a, [kind, n], sym=True, inv=True, supplied=[arr])
    if kind in ("orth", "scaled_orth"):
        q, _ = np.linalg.qr(rng.standard_normal((n, n)))
        arr = c(q)
        if kind == "orth":
            return Node(mm.OrthogonalMatrix(arr), q, [kind, n], inv=True, supplied=[arr])
        s = float(rng.uniform(0.4, 2.5) * rng.choice([-1, 1]))
        return Node(mm.ScaledOrthogonalMatrix(s, arr), s * q, [kind, n, s], inv=True, supplied=[arr])
    if kind in ("eig_sym", "eig_pd"):
        _, q, lam = _spd(rng, n)
        if kind == "eig_sym":
            lam = lam * rng.choice([-1, 1], n)
        how = int(rng.integers(0, 2))
        qa, la = c(q), c(lam)
        ev = qa if how == 0 else mm.OrthogonalMatrix(qa)
        cls = mm.EigendecomposedPositiveDefiniteMatrix if kind == "eig_pd" else mm.EigendecomposedSymmetricMatrix
        return Node(cls(ev, la), (q * lam) @ q.T, [kind, n, how], pd=(kind == "eig_pd"), sym=True, inv=True,
                    supplied=[qa, la])
    if kind == "softabs":
        s = rng.standard_normal((n, n))
        s = (s + s.T) / 2
        coeff = float(10 ** rng.uniform(-0.5, 0.7))
        arr = c(s)
        lam, vec = np.linalg.eigh(s)
        reg = lam / np.tanh(coeff * lam)
        d = (vec * reg) @ vec.T
        if np.linalg.cond(d) > MAX_COND:
            return leaf(rng, n, "eig_pd", depth)
        return Node(mm.SoftAbsRegularizedPositiveDefiniteMatrix(arr, coeff), d, [kind, n, coeff], pd=True,
                    supplied=[arr])
    if kind in ("block_pd", "block_sym", "block_sq"):
        nb = int(rng.integers(2, min(n, 3) + 1))
        cuts = sorted(rng.choice(np.arange(1, n), nb - 1, replace=False).tolist())
        sizes = np.diff([0, *cuts, n]).tolist()
        pool = {"block_pd": PD_LEAVES, "block_sym": PD_LEAVES + SYM_LEAVES, "block_sq": ALL_LEAVES}[kind]
        blocks = [leaf(rng, int(sz), str(rng.choice(pool)), depth + 1) for sz in sizes]
        cls = {"block_pd": mm.PositiveDefiniteBlockDiagonalMatrix, "block_sym": mm.SymmetricBlockDiagonalMatrix,
               "block_sq": mm.SquareBlockDiagonalMatrix}[kind]
        return Node(cls(tuple(b.m for b in blocks)), sla.block_diag(*[b.d for b in blocks]),
                    [kind, n, [b.desc for b in blocks]], pd=(kind == "block_pd"), sym=(kind != "block_sq"), inv=True,
                    parts=blocks)
    if kind.startswith("lowrank"):
        _, typ, sg = kind.split("_")
        sign = 1 if sg == "plus" else -1
        r = int(rng.integers(1, max(2, n // 2 + 1)))
        base_pool = {"pd": ("pos_diag", "dense_pd", "pos_scaled", "tri_fact_pd", "eig_pd", "identity"),
                     "sym": ("pos_diag", "dense_pd", "diag", "dense_sym", "eig_sym"),
                     "sq": ("pos_diag", "dense_pd", "dense_sq", "tri_lower", "diag")}[typ]
        base = leaf(rng, n, str(rng.choice(base_pool)), depth + 1)
        inner_kind = str(rng.choice({"pd": ("pos_diag", "dense_pd", "none"), "sym": ("pos_diag", "dense_sym", "diag", "none"),
                                     "sq": ("dense_sq", "pos_diag", "none")}[typ]))
        inner = None if inner_kind == "none" else leaf(rng, r, inner_kind, depth + 1)
        kd = np.identity(r) if inner is None else inner.d
        for _ in range(60):
            f = rng.standard_normal((n, r)) * 0.6
            g = f.T if typ != "sq" else rng.standard_normal((r, n)) * 0.6
            if typ == "pd" and sign == -1:
                top = np.max(np.linalg.eigvals(np.linalg.solve(base.d, f @ kd @ f.T)).real)
                f = f * np.sqrt(0.6 / max(top, 1e-9))
                g = f.T
            d = base.d + sign * f @ kd @ g
            cap = np.linalg.inv(kd) + sign * g @ np.linalg.solve(base.d, f)
            if np.linalg.cond(d) < 500 and np.linalg.cond(cap) < 500:
                if typ == "pd" and np.min(np.linalg.eigvalsh((d + d.T) / 2)) <= 1e-3:
                    continue
                break
        else:
            return leaf(rng, n, "dense_pd", depth)
        fa = c(f)
        fm = mm.DenseRectangularMatrix(fa)
        parts = [base] + ([inner] if inner is not None else [])
        im = None if inner is None else inner.m
        if typ == "pd":
            m = mm.PositiveDefiniteLowRankUpdateMatrix(fm, base.m, im, sign=sign)
        elif typ == "sym":
            m = mm.SymmetricLowRankUpdateMatrix(fm, base.m, im, sign=sign)
        else:
            ga = c(g)
            m = mm.SquareLowRankUpdateMatrix(fm, mm.DenseRectangularMatrix(ga), base.m, im, sign=sign)
        return Node(m, d, [kind, n, r, base.desc, None if inner is None else inner.desc], pd=(typ == "pd"),
                    sym=(typ != "sq"), inv=True, supplied=[fa], parts=parts)
    raise ValueError(kind)


def rect_leaf(rng, rows: int, cols: int, kind: str | None = None) -> Node:
    from mici import matrices as mm

    if kind is None:
        kind = str(rng.choice(RECT_LEAVES))
    if kind == "rect" or (kind == "block_row" and cols < 2) or (kind == "block_col" and rows < 2):
        a = rng.standard_normal((rows, cols))
        arr = lay(a)
        return Node(mm.DenseRectangularMatrix(arr), a, ["rect", rows, cols], supplied=[arr])
    if kind == "block_row":
        k = int(rng.integers(1, cols))
        left, right = rect_or_square(rng, rows, k), rect_or_square(rng, rows, cols - k)
        return Node(mm.BlockRowMatrix((left.m, right.m)), np.concatenate([left.d, right.d], axis=1),
                    [kind, left.desc, right.desc], parts=[left, right])
    k = int(rng.integers(1, rows))
    top, bot = rect_or_square(rng, k, cols), rect_or_square(rng, rows - k, cols)
    return Node(mm.BlockColumnMatrix((top.m, bot.m)), np.concatenate([top.d, bot.d], axis=0),
                [kind, top.desc, bot.desc], parts=[top, bot])


def rect_or_square(rng, rows, cols) -> Node:
    if rows == cols and rng.integers(0, 2):
        return leaf(rng, rows, str(rng.choice(["pos_diag", "dense_sq", "tri_lower", "dense_pd", "identity", "orth"])), 2)
    return rect_leaf(rng, rows, cols, "rect")


# ------------------------------------------------------------------------- operations
OPS = ("T", "inv", "sqrt", "neg", "smul", "rsmul", "div", "matmul_r", "matmul_l", "block", "lowrank", "matmul_rect")


def applicable_ops(node: Node) -> list[str]:
    from mici import matrices as mm

    ops = ["T", "neg", "smul", "rsmul", "div"]
    if node.square:
        ops += ["matmul_r", "matmul_l", "matmul_rect"]
        if isinstance(node.m, mm.InvertibleMatrix):
            ops.append("inv")
        if isinstance(node.m, mm.PositiveDefiniteMatrix):
            ops.append("sqrt")
        if isinstance(node.m, mm.SquareMatrix):
            ops.append("block")
        if isinstance(node.m, mm.SquareMatrix) and isinstance(node.m, mm.InvertibleMatrix):
            ops.append("lowrank")
    return ops


def apply_op(rng, node: Node, op: str) -> Node:  # noqa: C901, PLR0911, PLR0912
    """Apply one operation to the real object and, independently, to the shadow."""
    from mici import matrices as mm

    n = node.d.shape[0]
    if op == "T":
        return Node(node.m.T, node.d.T, ["T", node.desc], sym=node.sym, pd=node.pd, inv=node.inv, parts=[node])
    if op == "inv":
        return Node(node.m.inv, np.linalg.inv(node.d), ["inv", node.desc], sym=node.sym, pd=node.pd, inv=True,
                    parts=[node])
    if op == "sqrt":
        s = node.m.sqrt
        return Node(s, np.array(s.array), ["sqrt", node.desc], inv=True, parts=[node])
    if op == "neg":
        return Node(-node.m, -node.d, ["neg", node.desc], sym=node.sym, inv=node.inv, parts=[node])
    if op in ("smul", "rsmul", "div"):
        s = float(rng.uniform(0.4, 2.5) * rng.choice([-1, 1]))
        form = int(rng.integers(0, 3))
        sv = s if form == 0 else (np.float64(s) if form == 1 else np.array(s))
        if op == "smul":
            m, d = sv * node.m, s * node.d
        elif op == "rsmul":
            m, d = node.m * sv, node.d * s
        else:
            m, d = node.m / sv, node.d / s
        return Node(m, d, [op, round(s, 3), form, node.desc], sym=node.sym, pd=(node.pd and s > 0), inv=node.inv,
                    parts=[node])
    if op in ("matmul_r", "matmul_l"):
        other = leaf(rng, n, None, 1)
        if op == "matmul_r":
            return Node(node.m @ other.m, node.d @ other.d, ["matmul", node.desc, other.desc],
                        inv=(node.inv and other.inv), parts=[node, other])
        return Node(other.m @ node.m, other.d @ node.d, ["matmul", other.desc, node.desc],
                    inv=(node.inv and other.inv), parts=[other, node])
    if op == "matmul_rect":
        k = int(rng.integers(1, 5))
        if rng.integers(0, 2):
            other = rect_leaf(rng, n, k)
            return Node(node.m @ other.m, node.d @ other.d, ["matmul", node.desc, other.desc], parts=[node, other])
        other = rect_leaf(rng, k, n)
        return Node(other.m @ node.m, other.d @ node.d, ["matmul", other.desc, node.desc], parts=[other, node])
    if op == "block":
        k = int(rng.integers(1, 4))
        if isinstance(node.m, mm.PositiveDefiniteMatrix):
            other = leaf(rng, k, str(rng.choice(PD_LEAVES)), 1)
            cls, pd, sym = mm.PositiveDefiniteBlockDiagonalMatrix, True, True
        elif isinstance(node.m, mm.SymmetricMatrix):
            other = leaf(rng, k, str(rng.choice(PD_LEAVES + SYM_LEAVES)), 1)
            cls, pd, sym = mm.SymmetricBlockDiagonalMatrix, False, True
        else:
            other = leaf(rng, k, None, 1)
            cls, pd, sym = mm.SquareBlockDiagonalMatrix, False, False
        first = bool(rng.integers(0, 2))
        blocks = (node, other) if first else (other, node)
        return Node(cls(tuple(b.m for b in blocks)), sla.block_diag(*[b.d for b in blocks]),
                    ["blockdiag", cls.__name__, [b.desc for b in blocks]], sym=sym, pd=pd,
                    inv=all(b.inv for b in blocks), parts=list(blocks))
    if op == "lowrank":
        r = int(rng.integers(1, min(n, 2) + 1))  # factor with full column rank (dim_inner <= dim_outer)
        sign = int(rng.choice([-1, 1]))
        for _ in range(60):
            f = rng.standard_normal((n, r)) * 0.5
            if isinstance(node.m, mm.PositiveDefiniteMatrix) and sign == -1:
                top = np.max(np.linalg.eigvals(np.linalg.solve(node.d, f @ f.T)).real)
                f = f * np.sqrt(0.5 / max(top, 1e-9))
            d = node.d + sign * f @ f.T
            cap = np.identity(r) + sign * f.T @ np.linalg.solve(node.d, f)
            if np.linalg.cond(d) < 1e3 and np.linalg.cond(cap) < 1e3:
                break
        else:
            raise SkipCase("no well-conditioned low-rank update found")
        fa = f.copy()
        fm = mm.DenseRectangularMatrix(fa)
        if isinstance(node.m, mm.PositiveDefiniteMatrix):
            m, pd, sym = mm.PositiveDefiniteLowRankUpdateMatrix(fm, node.m, sign=sign), True, True
            if np.min(np.linalg.eigvalsh((d + d.T) / 2)) <= 1e-3:
                raise SkipCase("downdate not pd")
        elif isinstance(node.m, mm.SymmetricMatrix):
            m, pd, sym = mm.SymmetricLowRankUpdateMatrix(fm, node.m, sign=sign), False, True
        else:
            m, pd, sym = mm.SquareLowRankUpdateMatrix(fm, fm.T, node.m, sign=sign), False, False
        return Node(m, d, ["lowrank", type(m).__name__, sign, r, node.desc], sym=sym, pd=pd, inv=True, supplied=[fa],
                    parts=[node])
    raise ValueError(op)


class SkipCase(Exception):
    _mv_harness = True


def content_hash(x) -> str:
    import hashlib

    a = np.ascontiguousarray(np.asarray(x, dtype=float))
    return hashlib.sha1(a.tobytes() + str(a.shape).encode()).hexdigest()[:16]
