"""Regenerate /verif/MANIFEST.json from the table below (run with any python3)."""

import json
import subprocess
from pathlib import Path

VERIF = Path(__file__).resolve().parent.parent
BASE = json.load(open("/root/.vp/BASELINE.json"))

# id -> (level, technique, text, note, design_ref)
CHECKS = {
    "C20": (
        "exploration",
        "differential oracle: real helpers/operators vs 80-digit decimal reference over generated operand classes",
        "Runtime differential monitor: every generated call of log1p_exp/log1m_exp/log_sum_exp/log_diff_exp and of the "
        "LogRepFloat operators (binary, mixed, comparisons, in-place accumulation sequences up to 50 terms) on the real "
        "code is judged against exact decimal arithmetic within 8 ulp of the operand/result scale. Exploration is the "
        "right level: the input space is a product of floats; coverage is by magnitude/relation classes, not proof.",
        "Trusts python's decimal module at 80 digits; mixed arithmetic with plain numbers judged only where the plain "
        "value is representable (|log_val|<=700); near-tie mixed comparisons (within 64 ulp) are skipped as inconclusive.",
        "DESIGN.md section 3, C20",
    ),
}

CHECKS.update({
    "C10": (
        "exploration",
        "differential oracle: random operator programs over every matrix class vs an independent dense shadow",
        "Runtime differential monitor over generated expression trees: every class and constructor option (signs, "
        "lower/upper, supplied factors/LU/eigendecompositions, implicit sizes, inner matrices, nested blocks and low-rank "
        "parts, sizes 1-6) is combined by random programs of T/inv/sqrt/neg/scalar ops/Matrix@Matrix/block/low-rank "
        "composition (depth <=4 quick, <=8 thorough); after every step array, products, diagonal, transpose, "
        "log_abs_det, inverse, eigen-decomposition and sqrt are compared with dense numpy algebra and class-retention "
        "rules are checked. Exploration: the space of expression trees is unbounded; coverage is counted by (leaf, "
        "operator sequence).",
        "Trusts numpy/scipy dense algebra on shadows with cond <= 1e6; tolerance 1e-7 relative; low-rank factors are "
        "generated with full column rank (dim_inner <= dim_outer).",
        "DESIGN.md section 3, C10",
    ),
    "C11": (
        "exploration",
        "differential oracle: reported gradients vs 4th-order finite differences of the dense parametrisation",
        "Runtime differential monitor: for every differentiable matrix class and option (both signs, lower/upper, "
        "with/without inner matrix, SoftAbs coefficients 1e-2..1e2, block compositions, well separated / nearly equal / "
        "bit-identical Hessian eigenvalues) grad_log_abs_det and grad_quadratic_form_inv are compared along a complete "
        "basis of parameter directions, and in structure, with finite differences of log|det| and v'M^-1v of the dense "
        "formula.",
        "Finite differences decide to ~2e-6 relative; symmetric-array parameters judged along symmetric directions.",
        "DESIGN.md section 3, C11",
    ),
    "C19": (
        "exploration",
        "invariant monitors: operand content hashing, access-order permutation, equality/hash/copy laws, write probes",
        "Runtime monitors on real matrix objects: (1) sha1 of every caller-supplied array and operand before/after every "
        "operation and lazy-attribute access of generated operator programs; (2) equal-parameter instances queried in "
        "independent random attribute orders must agree and be bitwise repeatable; (3) ==/hash/copy/deepcopy/pickle "
        "laws before and after lazy attributes exist; (4) near-miss pairs: == must imply equal arrays; (5) in-place "
        "writes through parameter arrays must raise or leave the operator unchanged.",
        "Order independence compared at 1e-12 relative; write probes cover parameter arrays, not derived caches.",
        "DESIGN.md section 3, C19",
    ),
})

NOT_YET = "check not built yet in this session (in progress; see DESIGN.md section 3 for the planned monitor)"


def main() -> None:
    props = [json.loads(line) for line in open(VERIF / "properties.jsonl")]
    hooks_commits = []
    try:
        out = subprocess.run(["git", "-C", "/repo", "log", "--format=%H %s"], capture_output=True, text=True).stdout
        hooks_commits = [ln.split()[0] for ln in out.splitlines() if ln.split(" ", 1)[1].startswith("verif-hook:")]
    except Exception:  # noqa: BLE001
        pass
    man = {
        "version": 1,
        "setup_cmd": "/venv/bin/pip install -q --no-index --find-links /opt/veriftools/wheels --target /verif/.deps icontract deal || true",
        "hooks": {
            "guard": "MICI_VERIF",
            "enable": "checks run with MICI_VERIF=1 in the environment; all instrumentation is attached from the harness "
                      "(wrappers, subclasses, icontract decorators) to the code imported from /repo/src, nothing is built",
            "baseline_off_cmd": BASE["cmd"].replace("<file>", "/tmp/mici-baseline.junit.xml"),
            "source_commits": hooks_commits,
            "add_only": True,
        },
        "engines": [
            {
                "name": "mv",
                "path": "mv/",
                "serves_properties": sorted(CHECKS),
                "kind_free_text": "runtime monitors (differential oracles, reference-model checkers, contracts, fault and "
                                  "interrupt injection) over generated executions of the real mici code, sharded over "
                                  "subprocesses",
            },
        ],
        "checks": [],
        "not_applicable": [],
        "notes": "All checks: ./check <id> <tier>; VERIF_SEED honoured; evidence/<id>.json rewritten on every run; known "
                 "findings in known_findings.json. Exit 2 = inconclusive/broken run (deciding monitor not reached).",
    }
    for p in props:
        pid = p["id"]
        if pid in CHECKS:
            level, tech, text, note, ref = CHECKS[pid]
            man["checks"].append({
                "property_id": pid,
                "quick_cmd": f"./check {pid} quick",
                "thorough_cmd": f"./check {pid} thorough",
                "evidence_file": f"/verif/evidence/{pid}.json",
                "replay_cmd_template": f"./check {pid} --replay {{path}}",
                "engine": "mv",
                "level_claimed": {"category": level, "text": text, "design_ref": ref},
                "level_note": note,
                "technique": tech,
            })
        else:
            man["not_applicable"].append({"property_id": pid, "reason": NOT_YET})
    (VERIF / "MANIFEST.json").write_text(json.dumps(man, indent=1))
    print("claimed:", [c["property_id"] for c in man["checks"]])


if __name__ == "__main__":
    main()
