"""C13 - sampler outputs record exactly the post-iteration chain states."""

from __future__ import annotations

import shutil
import signal
import tempfile
from pathlib import Path

import numpy as np

ID = "C13"
LEVEL = "exploration"
RULE = (
    "each case is one sampling configuration (chains 1-4; warm-up and main counts from {0,1,2,5,13}; trace_warm_up; 0-2 "
    "trace functions with vector / scalar / integer outputs; none / fast / fast+slow adapters with both stagers; initial "
    "states as ChainState, dict or bare arrays; both sampler front ends; four transition kinds) run sequentially in "
    "memory and again under 1-2 other storage / process modes (forced temporary memmap, user memmap directory, "
    "n_process 2, 3 or None). A proxy of the last transition logs every post-iteration state and statistics dict to a "
    "per-process file; the oracle requires row r of every trace / statistic array to equal the logged r-th recorded "
    "iteration (bitwise, declared dtype), exact lengths, no surviving fill value, final state = last logged state, and "
    "equal arrays across modes (and in the .npy files of a user directory). distinct_nontrivial = distinct (front end, "
    "transition, chains, warm/main class, trace set, adapters+stager, init kind, mode) combinations."
)
ASSUMPTIONS = [
    "the logging proxy sits at the public Transition boundary; it evaluates system.h on a copy of the returned state only",
    "bare-array initial states cannot carry a chain tag: they are only run with n_process=1 and mapped to chains by call order",
    "each sample_chains call runs under a 180 s alarm; a timeout is inconclusive, not a violation",
]
REQUIRED = {"runs": 60, "rows_compared": 2000, "mode_pairs_compared": 30}
BUDGET_S = {"quick": 240, "thorough": 2400}
MAX_PARALLEL = 6
SHARDS_PER_SLOT = 2
COUNTS = [0, 1, 2, 5, 13]


def shard_setup(obs) -> None:
    from mv import common

    common.setup_paths()


def gen_cases(tier: str, seed: int):
    n = {"quick": 72, "thorough": 2000}[tier]
    rng = np.random.default_rng([seed, 13])
    yield {"cfg": {"n_chain": 2, "n_warm": 2, "n_main": 3, "adapters": ["step"], "seed": 5, "trace": ["pos"], "transition": "static",
                   "init": "state"}, "modes": [{"n_process": None}], "seed": [seed, 0]}
    # directed: no trace functions at all (trace_funcs=None: statistics only) with every stager and traced warm-up
    for j, (adapters, stager) in enumerate([(["step", "var"], None), (["step", "var"], [2, 1, 1, 2.0]), (["var"], [2, 0, 0, 2.0]),
                                            (["step"], "warmup"), (["step"], None), ([], None)]):
        yield {"cfg": {"n_chain": 2, "n_warm": [6, 12, 9][j % 3], "n_main": 3, "adapters": adapters, "stager": stager, "seed": 40 + j,
                       "trace": "none", "trace_warm_up": True, "transition": ["static", "multinomial"][j % 2], "init": "dict",
                       "front_end": "mcmc", "dim": 2, "model_seed": j},
               "modes": [[{"force_memmap": True}, {"n_process": 2}][j % 2]], "seed": [seed, 900 + j]}
    for i in range(n):
        adapters, stager = [([], None), (["step"], None), (["step"], "warmup"), (["step", "var"], None),
                            (["step", "var"], [2, 1, 1, 2.0]), (["var"], [2, 0, 0, 2.0])][i % 6]
        n_warm = int(COUNTS[int(rng.integers(0, 5))])
        n_chain = int(rng.integers(1, 5))
        if "var" in adapters:
            n_chain = max(n_chain, 2)  # a one-iteration slow window with one chain raises the documented AdaptationError
        cfg = {"n_chain": n_chain, "n_warm": n_warm, "n_main": int(COUNTS[int(rng.integers(0, 5))]),
               "adapters": adapters if n_warm > 0 or rng.integers(0, 2) else [], "stager": stager if adapters else None,
               "seed": int(rng.integers(0, 10**6)), "model_seed": int(rng.integers(0, 100)), "dim": int(rng.integers(1, 4)),
               "trace": [[], ["pos"], ["pos", "scalars"], ["energy", "int_vec"], ["odd_keys", "pos"], "default", ["pos", "pos_twice"],
                         ["pos_twice", "pos"]][int(rng.integers(0, 8))],
               "display_progress": bool(i % 7 == 3),
               "trace_warm_up": bool(rng.integers(0, 2)), "transition": ["static", "random", "multinomial", "slice"][i % 4],
               "init": ["state", "dict", "array", "state_nomom"][int(rng.integers(0, 4))],
               "front_end": "hmc" if rng.integers(0, 3) else "mcmc", "grad_returns_value": bool(rng.integers(0, 2))}
        if not cfg["adapters"]:
            cfg["stager"] = None
        if cfg["front_end"] == "mcmc" and cfg["init"] in ("array", "state_nomom"):
            cfg["init"] = "dict"
        if cfg["front_end"] == "hmc" and cfg["init"] == "dict":  # the HMC front end documents arrays or ChainState only
            cfg["init"] = "state"
        if cfg["front_end"] == "mcmc" and rng.integers(0, 4) == 0:
            cfg["trace"] = "none"  # trace_funcs=None
        if cfg["front_end"] == "mcmc" and rng.integers(0, 2):
            cfg["extra_transition"] = True  # two transitions with statistics of the same names
        if rng.integers(0, 4) == 0:
            cfg["monitor_stats"] = ["accept_stat", "n_step"] if cfg["front_end"] == "hmc" else {"integration_transition": ["n_step"]}
        pool = [{"force_memmap": True}, {"memmap_user_dir": True, "force_memmap": True}, {"n_process": 2}, {"n_process": 3},
                {"n_process": 2, "memmap_user_dir": True}]
        if i % 12 == 0:
            pool.append({"n_process": None})
        k = 1 if tier == "quick" else 2
        modes = [pool[int(j)] for j in rng.choice(len(pool), size=k, replace=False)]
        if cfg["init"] == "array":
            modes = [m for m in modes if m.get("n_process", 1) == 1] or [{"force_memmap": True}]
        yield {"cfg": cfg, "modes": modes, "seed": [seed, i + 1]}


class RunTimeout(Exception):
    _mv_harness = True


def run_with_alarm(cfg, workdir, seconds=180):
    from mv import samp

    def handler(signum, frame):  # noqa: ARG001
        raise RunTimeout

    old = signal.signal(signal.SIGALRM, handler)
    signal.alarm(seconds)
    try:
        return samp.run(cfg, workdir)
    finally:
        signal.alarm(0)
        signal.signal(signal.SIGALRM, old)


def expected_rows(cfg, stages):
    """Global iteration indices (per chain) that are recorded, in row order."""
    rows = []
    it = 0
    for _k, st in stages:
        if st.trace_funcs is not None or st.record_stats:
            rows.extend(range(it, it + st.n_iter))
        it += st.n_iter
    return rows, it


def chain_records(res, cfg, stages):
    """Per chain list of 'end' records ordered by iteration (tag -1 records are split by call order)."""
    ends = [r for r in res["recs"] if r["kind"] == "end"]
    n_chain = cfg["n_chain"]
    per = {c: [] for c in range(n_chain)}
    if any(r["tag"] == -1 for r in ends):
        idx = 0
        for _k, st in stages:
            for c in range(n_chain):
                per[c].extend(ends[idx: idx + st.n_iter])
                idx += st.n_iter
        return per if idx == len(ends) else None
    for r in ends:
        per[r["tag"]].append(r)
    for c in per:
        per[c].sort(key=lambda r: r["iter"])
    return per


def check_run(obs, res, cfg, label):  # noqa: C901, PLR0912
    from mici.errors import AdaptationError

    from mv import samp

    if isinstance(res["exc"], AdaptationError):
        obs.count("adaptation_error_runs")
        # documented only for a variance / covariance adapter that saw fewer than two samples in a stage
        plan = list(samp.stage_plan(cfg, res["kw"]).items())
        starved = [k for k, st in plan if st.adapters is not None and 0 < st.n_iter * cfg["n_chain"] < 2 and any(
            "Variance" in type(a).__name__ or "Covariance" in type(a).__name__ for v in st.adapters.values() for a in v)]
        if not starved:
            obs.violation(f"adaptation-error-with-enough-samples:{label}",
                          f"{res['exc']!r} although every adaptive stage with a metric adapter offers >= 2 samples "
                          f"(stages {[(k, st.n_iter) for k, st in plan]}, {cfg['n_chain']} chains); cfg={cfg}")
        return None
    if res["exc"] is not None:
        raise res["exc"]
    out = res["out"]
    obs.count("runs")
    stages = list(samp.stage_plan(cfg, res["kw"]).items())
    rows, total = expected_rows(cfg, stages)
    n_rows_expected = cfg["n_warm"] + cfg["n_main"] if cfg.get("trace_warm_up") else cfg["n_main"]
    if len(rows) != n_rows_expected:
        obs.violation("row-plan", f"stage plan records {len(rows)} rows, expected {n_rows_expected}; cfg={cfg}")
        return None
    per = chain_records(res, cfg, stages)
    n_chain = cfg["n_chain"]
    if per is None or any(len(per[c]) != total for c in range(n_chain)):
        obs.violation(f"iterations-logged:{label}", f"logged iterations per chain {None if per is None else [len(v) for v in per.values()]} != {total}; cfg={cfg}")
        return None
    traces = out.traces
    stats = out.statistics
    if cfg.get("front_end", "hmc") == "mcmc":
        stats = stats.get("integration_transition", {})
    if cfg.get("front_end", "hmc") == "mcmc" and cfg.get("extra_transition"):
        # statistics of the second statistics-bearing transition, row by row, against what that transition reported
        xst = out.statistics.get("extra_transition")
        mids = {(x["tag"], x["iter"]): x["stats"] for x in res["recs"] if x["kind"] == "mid"}
        if xst is None:
            obs.violation("stat-key-missing", "no statistics returned for the second transition ('extra_transition')")
        else:
            for c in range(n_chain):
                for r, it in enumerate(rows):
                    rep = mids.get((c, it))
                    if rep is None:
                        continue
                    for key, val in rep.items():
                        obs.count("second_transition_stat_rows")
                        got = xst[key][c][r]
                        want = np.asarray(val).astype(np.asarray(xst[key][c]).dtype)
                        if not _same(got, want):
                            obs.violation(f"stat-row-mismatch:second-transition:{label}",
                                          f"statistic {key!r} of 'extra_transition' chain {c} row {r} = {got!r}, that transition reported "
                                          f"{val!r} at iteration {it}; cfg={cfg}")
    tfs = res["trace_funcs"]
    if not tfs:
        if traces is not None:
            obs.violation("traces-without-trace-funcs", f"traces returned without trace functions: {type(traces)}")
    else:
        keys = set()
        for tf in tfs:
            keys |= set(tf.apply_logged(per[0][0] if per[0] else {"pos": np.zeros(cfg.get("dim", 2)), "mom": np.zeros(cfg.get("dim", 2)), "dir": 1, "h": 0.0}).keys())
        if set(traces.keys()) != keys:
            obs.violation("trace-keys", f"trace keys {sorted(traces)} != {sorted(keys)}")
            return None
    flat = {}
    for c in range(n_chain):
        for r, it in enumerate(rows):
            rec = per[c][it]
            obs.count("rows_compared")
            expected_row = {}
            for tf in tfs or []:  # documented: for a key returned by several trace functions the last one wins
                expected_row.update(tf.apply_logged(rec))
            for _once in (1,):
                for key, val in expected_row.items():
                    got = traces[key][c][r]
                    if not _same(got, val):
                        obs.violation(f"trace-row-mismatch:{label}",
                                      f"trace {key!r} chain {c} row {r} = {got!r} but the state after recorded iteration {it} gives {val!r}; cfg={cfg}")
            for key, val in rec["stats"].items():
                if key not in stats:
                    obs.violation("stat-key-missing", f"statistic {key!r} missing from output")
                    continue
                got = stats[key][c][r]
                want = np.asarray(val).astype(stats[key][c].dtype)
                if not _same(got, want):
                    obs.violation(f"stat-row-mismatch:{label}",
                                  f"statistic {key!r} chain {c} row {r} = {got!r}, transition reported {val!r} at iteration {it}; cfg={cfg}")
        for key, arrs in (traces or {}).items():
            if arrs[c].shape[0] != len(rows):
                obs.violation(f"trace-length:{label}", f"trace {key!r} chain {c} has {arrs[c].shape[0]} rows, expected {len(rows)}; cfg={cfg}")
            a = np.asarray(arrs[c])
            if a.dtype.kind == "f" and np.isnan(a).any():
                obs.violation(f"fill-value-survives:{label}", f"NaN left in trace {key!r} chain {c} after a completed run; cfg={cfg}")
            flat[f"trace:{key}:{c}"] = np.array(a)
        for key, arrs in stats.items():
            a = np.asarray(arrs[c])
            if a.shape[0] != len(rows):
                obs.violation(f"stat-length:{label}", f"statistic {key!r} chain {c} has {a.shape[0]} rows, expected {len(rows)}; cfg={cfg}")
            if (a.dtype.kind == "f" and np.isnan(a).any()) or (key in ("n_step", "tree_depth") and (a < 0).any()):
                obs.violation(f"fill-value-survives:{label}", f"fill value left in statistic {key!r} chain {c}: {a}; cfg={cfg}")
            flat[f"stat:{key}:{c}"] = np.array(a)
        # declared dtypes
    types = _stat_types(res)
    for key, arrs in stats.items():
        if key in types and np.asarray(arrs[0]).dtype != np.dtype(types[key][0]):
            obs.violation("stat-dtype", f"statistic {key!r} has dtype {np.asarray(arrs[0]).dtype}, declared {np.dtype(types[key][0])}")
    if set(types) != set(stats.keys()):
        obs.violation("stat-keys", f"statistics keys {sorted(stats)} != declared {sorted(types)}")
    # final states
    fs = out.final_states
    if len(fs) != n_chain:
        obs.violation("final-states-count", f"{len(fs)} final states for {n_chain} chains")
    else:
        for c in range(n_chain):
            if total > 0:
                rec = per[c][-1]
                # after a metric adaptation the momentum is legitimately redrawn at finalize; the main stage is last
                if not np.array_equal(np.asarray(fs[c].pos), rec["pos"]):
                    obs.violation(f"final-state:{label}", f"final state position of chain {c} is not the state after its last iteration; cfg={cfg}")
                if stages and stages[-1][1].adapters is None and stages[-1][1].n_iter > 0 and not np.array_equal(np.asarray(fs[c].mom), rec["mom"]):
                    obs.violation(f"final-state-momentum:{label}", f"final state momentum of chain {c} differs from the last iteration's; cfg={cfg}")
            flat[f"final:{c}"] = np.array(fs[c].pos)
    return flat


def _stat_types(res):
    tr = res["sampler_transitions"]["integration_transition"]
    return dict(tr.statistic_types)


def _same(a, b) -> bool:
    a, b = np.asarray(a), np.asarray(b)
    if a.shape != b.shape:
        return False
    return bool(np.array_equal(a, b, equal_nan=False))


def run_case(case, obs) -> None:
    from mv import samp

    cfg = dict(case["cfg"])
    workdir = tempfile.mkdtemp(prefix="mv-c13-")
    try:
        base_cfg = dict(cfg, n_process=1)
        try:
            res = run_with_alarm(base_cfg, workdir)
        except RunTimeout:
            obs.inconc("run-timeout")
            return
        base = check_run(obs, res, base_cfg, "sequential-memory")
        obs.token(cfg.get("front_end"), cfg["transition"], cfg["n_chain"], cfg["n_warm"], cfg["n_main"], str(cfg["trace"]),
                  tuple(cfg["adapters"]), str(cfg.get("stager")), cfg["init"], "base", cfg.get("trace_warm_up"))
        for mode in case["modes"]:
            mcfg = dict(cfg)
            label = []
            if "n_process" in mode:
                mcfg["n_process"] = mode["n_process"]
                label.append(f"n_process={mode['n_process']}")
            else:
                mcfg["n_process"] = 1
            if mode.get("force_memmap"):
                mcfg["force_memmap"] = True
                label.append("memmap")
            udir = None
            if mode.get("memmap_user_dir"):
                udir = str(Path(workdir) / f"user-{len(label)}-{np.random.default_rng().integers(1 << 30)}")
                Path(udir).mkdir()
                mcfg["memmap_dir"] = udir
                label.append("userdir")
            label = "+".join(label) or "plain"
            try:
                res2 = run_with_alarm(mcfg, workdir)
            except RunTimeout:
                obs.inconc(f"run-timeout:{label}")
                continue
            flat = check_run(obs, res2, mcfg, label)
            obs.add_to_set("modes_run", label)
            if base is not None and flat is not None:
                obs.count("mode_pairs_compared")
                if set(base) != set(flat):
                    obs.violation(f"mode-output-keys:{label}", f"outputs differ in structure between sequential in-memory and {label}")
                else:
                    for k in base:
                        if not _same(base[k], flat[k]):
                            obs.violation(f"mode-output-differs:{label}",
                                          f"{k} differs between the sequential in-memory run and the {label} run of the same seeded configuration; cfg={cfg}")
                            break
            if udir is not None and flat is not None:
                out2 = res2["out"]
                files = sorted(Path(udir).glob("*.npy"))
                obs.count("npy_files_reread", len(files))
                # every returned array must be the content of a file in the user's directory (matched by content: the file
                # naming scheme is not documented)
                returned = []
                for key, arrs in (out2.traces or {}).items():
                    returned += [(f"trace {key!r} chain {c}", np.asarray(a_)) for c, a_ in enumerate(arrs)]
                st_all = {"": out2.statistics} if mcfg.get("front_end", "hmc") == "hmc" else dict(out2.statistics)
                for tkey, st2 in st_all.items():
                    for key, arrs in (st2 or {}).items():
                        returned += [(f"statistic {tkey}.{key} chain {c}", np.asarray(a_)) for c, a_ in enumerate(arrs)]
                fcache = {}
                if returned and not files:
                    obs.violation("memmap-files-missing", f"user memmap directory holds no .npy file although {len(returned)} arrays were returned")
                else:
                    for what, a_ in returned:
                        obs.count("npy_content_matches")
                        if not samp.files_holding(udir, a_, fcache):
                            obs.violation("memmap-file-content", f"no file in the user memmap directory holds the returned {what}; cfg={mcfg}")
                            break
                    if len(files) < len({(a_.tobytes(), a_.shape, str(a_.dtype)) for _w, a_ in returned}):
                        obs.violation("memmap-files-missing", f"{len(files)} files for {len(returned)} returned arrays with distinct contents")
            obs.token(cfg.get("front_end"), cfg["transition"], cfg["n_chain"], tuple(cfg["adapters"]), label)
            samp.cleanup(res2)
        obs.sample({"cfg": cfg, "modes": case["modes"]})
    finally:
        shutil.rmtree(workdir, ignore_errors=True)
