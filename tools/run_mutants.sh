#!/bin/bash
# run every own mutant against the checks expected to catch it; prints CAUGHT/MISSED per (mutant, check)
cd /verif
python3 - <<'PY' > /tmp/mutant_jobs.txt
import json
t=json.load(open('/verif/mutants/expected.json'))
import sys
sel=set(sys.argv[1:])
for name,props in t.items():
    print(name, " ".join(props))
PY
while read name props; do
  [ -n "$1" ] && [[ "$name" != $1* ]] && continue
  out=$(MUT_LINES=2 tools/mutant.sh mutants/$name.diff $props 2>&1)
  echo "$out" | grep "^==" | while read l; do
     c=$(echo "$l" | awk '{print $2}'); rc=$(echo "$l" | sed 's/.*rc=\([0-9]*\).*/\1/')
     if [ "$rc" = "1" ]; then echo "CAUGHT $name $c"; elif [ "$rc" = "0" ]; then echo "MISSED $name $c"; else echo "OTHER(rc=$rc) $name $c"; fi
  done
  echo "$out" | grep -E "VIOLATION|INCONCL" | head -3
done < /tmp/mutant_jobs.txt
