"""Driver:  python -m mv.run <Cxx> [quick|thorough] [--replay file] [--jobs N]

Exit 0: property held on everything explored (known findings are printed, not raised).
Exit 1: at least one violation not listed in known_findings.json (VIOLATION lines).
Exit 2: inconclusive / broken run (deciding monitor not reached, shard crashed...).
"""

from __future__ import annotations

import importlib
import json
import os
import shutil
import subprocess
import sys
import tempfile
import time
from pathlib import Path

from mv import common
from mv.common import VERIF

NCPU = os.cpu_count() or 4
# runs against a scratch copy (MV_REPO, used by the mutation self-tests) never touch the official evidence / replays
SCRATCH = "MV_REPO" in os.environ
EVID_DIR = (VERIF / ".work" / "evidence-scratch") if SCRATCH else (VERIF / "evidence")
REPLAY_DIR = (VERIF / ".work" / "replays-scratch") if SCRATCH else (VERIF / "replays")


def ensure_deps() -> bool:
    deps = VERIF / ".deps"
    if (deps / "icontract").exists():
        return True
    cmd = [
        sys.executable, "-m", "pip", "install", "-q", "--no-index", "--find-links",
        "/opt/veriftools/wheels", "--target", str(deps), "icontract", "deal",
    ]
    try:
        subprocess.run(cmd, check=True, capture_output=True, timeout=300)
    except Exception:  # noqa: BLE001
        return False
    return True


def worker_main(argv: list[str]) -> int:
    modname, workdir, shard = argv[0], Path(argv[1]), int(argv[2])
    common.setup_paths()
    common.assert_mici_from_repo()
    mod = importlib.import_module(f"mv.{modname}")
    plan = json.loads((workdir / "plan.json").read_text())
    cases = json.loads((workdir / "cases.json").read_text())
    common.run_shard(mod, cases, plan["shards"][shard], str(workdir / f"out{shard}.json"), plan["deadline_s"])
    return 0


def child_env(pycache: str) -> dict:
    env = dict(os.environ)
    env["PYTHONPATH"] = str(VERIF)
    env["PYTHONPYCACHEPREFIX"] = pycache
    env["PYTHONHASHSEED"] = "0"
    env["MICI_VERIF"] = "1"
    for k in ("OMP_NUM_THREADS", "OPENBLAS_NUM_THREADS", "MKL_NUM_THREADS"):
        env[k] = "1"
    return env


def main(argv: list[str]) -> int:
    if argv and argv[0] == "--worker":
        return worker_main(argv[1:])
    t_start = time.time()
    prop = argv[0].upper()
    tier = os.environ.get("VERIF_TIER", "quick")
    replay = None
    jobs = None
    rest = argv[1:]
    while rest:
        a = rest.pop(0)
        if a in ("quick", "thorough"):
            tier = a
        elif a == "--replay":
            replay = rest.pop(0)
        elif a == "--jobs":
            jobs = int(rest.pop(0))
    seed = int(os.environ.get("VERIF_SEED", "0"))
    modname = prop.lower()
    have_deps = ensure_deps()
    common.setup_paths()
    mici_file = common.assert_mici_from_repo()
    mod = importlib.import_module(f"mv.{modname}")
    findings = common.load_findings()

    if replay is not None:
        case = json.loads(Path(replay).read_text())["case"]
        obs = common.Obs()
        obs.case = case
        if hasattr(mod, "shard_setup"):
            mod.shard_setup(obs)
        try:
            mod.run_case(case, obs)
        except BaseException as e:  # noqa: BLE001
            import traceback

            obs.violation(f"unexpected-exception:{common.exc_key(e)}", traceback.format_exc()[-3000:])
        bad = 0
        for v in obs.violations:
            f = common.match_open(findings, prop, v["key"])
            if f:
                print(f"KNOWN-FINDING: property={prop} {f['what']}")
            else:
                bad += 1
                print(f"VIOLATION property={prop} replay={replay}  key={v['key']}")
                print("   ", v["msg"][:1500])
        print(f"replay: {len(obs.violations)} violation(s), counters={dict(obs.counters)}")
        return 1 if bad else 0

    cases = list(mod.gen_cases(tier, seed))
    if not cases:
        print(f"INCONCLUSIVE property={prop} reason=no-cases-generated")
        return 2
    maxpar = min(getattr(mod, "MAX_PARALLEL", NCPU), jobs or NCPU, NCPU)
    nshards = max(1, min(len(cases), maxpar * getattr(mod, "SHARDS_PER_SLOT", 3)))
    shards = [list(range(s, len(cases), nshards)) for s in range(nshards)]
    budget = getattr(mod, "BUDGET_S", {"quick": 150, "thorough": 1500})[tier]
    workroot = Path(tempfile.mkdtemp(prefix=f"mv-{modname}-"))
    pycache = str(workroot / "pycache")
    dumps = []
    dead = []
    try:
        (workroot / "cases.json").write_text(json.dumps(cases))
        (workroot / "plan.json").write_text(json.dumps({"shards": shards, "deadline_s": budget}))
        env = child_env(pycache)
        pending = list(range(nshards))
        running: dict[int, tuple] = {}
        hard = budget * 1.5 + 60
        while pending or running:
            while pending and len(running) < maxpar:
                s = pending.pop(0)
                log = open(workroot / f"log{s}.txt", "w")  # noqa: SIM115
                p = subprocess.Popen(
                    [sys.executable, "-X", "faulthandler", "-m", "mv.run", "--worker", modname, str(workroot), str(s)],
                    cwd=str(VERIF), env=env, stdout=log, stderr=subprocess.STDOUT, start_new_session=True,
                )
                running[s] = (p, time.time(), log)
            time.sleep(0.05)
            for s, (p, t0, log) in list(running.items()):
                rc = p.poll()
                if rc is None and time.time() - t0 > hard:
                    try:
                        os.killpg(p.pid, 9)
                    except OSError:
                        p.kill()
                    rc = p.wait()
                    dead.append((s, "watchdog"))
                    log.close()
                    del running[s]
                    continue
                if rc is not None:
                    log.close()
                    del running[s]
                    out = workroot / f"out{s}.json"
                    if rc == 0 and out.exists():
                        dumps.append(json.loads(out.read_text()))
                    else:
                        tail = (workroot / f"log{s}.txt").read_text()[-1500:]
                        dead.append((s, f"rc={rc} {tail}"))
        merged = common.merge(dumps)
    finally:
        shutil.rmtree(workroot, ignore_errors=True)

    # ---- run-level verdicts -----------------------------------------------------
    inconclusive_fatal = []
    if dead:
        inconclusive_fatal.append(f"{len(dead)} shard(s) died: {dead[0][1][-400:]}")
    req = getattr(mod, "REQUIRED", {})
    if isinstance(req.get(tier), dict):
        req = req[tier]
    for name, minimum in req.items():
        if isinstance(minimum, dict):
            continue
        if merged["counters"].get(name, 0) < minimum:
            inconclusive_fatal.append(f"monitor counter {name}={merged['counters'].get(name, 0)} < {minimum}")
    if merged["counters"].get("harness_errors", 0):
        inconclusive_fatal.append(f"harness_errors={merged['counters']['harness_errors']}")
    fin = getattr(mod, "finalize", None)
    if fin is not None:
        extra = fin(merged, tier) or {}
        for v in extra.get("violations", []):
            merged["violations"].append(v)
        inconclusive_fatal.extend(extra.get("inconclusive", []))

    known_seen: dict[str, dict] = {}
    unknown = []
    for v in merged["violations"]:
        f = common.match_open(findings, prop, v["key"])
        if f is not None:
            known_seen.setdefault(f["key"], {"what": f["what"], "n": 0})["n"] += 1
        else:
            unknown.append(v)
    for info in known_seen.values():
        print(f"KNOWN-FINDING: property={prop} {info['what']}  (observed {info['n']}x this run)")
    REPLAY_DIR.mkdir(parents=True, exist_ok=True)
    for old in REPLAY_DIR.glob(f"{prop}-*.json"):
        old.unlink()
    seen_keys = set()
    n_reported = 0
    for v in unknown:
        if v["key"] in seen_keys and n_reported >= 10:
            continue
        seen_keys.add(v["key"])
        path = REPLAY_DIR / f"{prop}-{n_reported}.json"
        path.write_text(json.dumps({"property": prop, "key": v["key"], "msg": v["msg"], "detail": v.get("detail"),
                                    "case": v["case"], "seed": seed, "tier": tier}, indent=1))
        print(f"VIOLATION property={prop} replay={path}  key={v['key']}")
        print("    " + v["msg"][:600].replace("\n", "\n    "))
        n_reported += 1
        if n_reported >= 25:
            break

    wall = time.time() - t_start
    cov = {
        "evaluations": int(merged["evaluations"]),
        "distinct_nontrivial": len(merged["distinct"]),
        "rule": mod.RULE,
        "samples": merged["samples"][:8] or [{"note": "no sample recorded"}],
        "counters": dict(sorted(merged["counters"].items())),
        "worst_observed": merged["worst"],
        "distinct_sets": {k: {"n": len(v), "items": sorted(v)[:40]} for k, v in merged["sets"].items()},
        "inconclusive": dict(merged["inconclusive"]),
        "inconclusive_fatal": inconclusive_fatal,
        "known_findings_observed": known_seen,
        "unknown_violation_keys": sorted({v["key"] for v in unknown}),
        "cases_generated": len(cases),
        "shards": nshards,
        "mici_file": mici_file,
        "contracts_lib_available": have_deps,
        "exhaustive": bool(getattr(mod, "EXHAUSTIVE", False)),
    }
    ev = {
        "property_id": prop,
        "tier": tier,
        "seed": seed,
        "level": mod.LEVEL,
        "coverage": cov,
        "assumptions": list(getattr(mod, "ASSUMPTIONS", [])),
        "wall_s": round(wall, 2),
        "violations": len(unknown),
    }
    EVID_DIR.mkdir(parents=True, exist_ok=True)
    (EVID_DIR / f"{prop}.json").write_text(json.dumps(ev, indent=1))
    c = merged["counters"]
    print(f"{prop} {tier} seed={seed}: cases={merged['evaluations']}/{len(cases)} distinct={len(merged['distinct'])} "
          f"violations={len(unknown)} known={sum(i['n'] for i in known_seen.values())} "
          f"inconclusive={sum(merged['inconclusive'].values())} wall={wall:.1f}s")
    print("   counters: " + ", ".join(f"{k}={v}" for k, v in sorted(c.items()))[:1500])
    if merged["worst"]:
        print("   worst: " + ", ".join(f"{k}={v['value']:.3g}" for k, v in sorted(merged["worst"].items()))[:1500])
    for smp in merged["samples"]:
        if isinstance(smp, dict) and "harness_error" in smp:
            print("   first harness error:\n" + smp["harness_error"])
            break
    if unknown:
        return 1
    if inconclusive_fatal:
        for r in inconclusive_fatal:
            print(f"INCONCLUSIVE property={prop} reason={r[:600]}")
        return 2
    return 0


if __name__ == "__main__":
    sys.exit(main(sys.argv[1:]))
