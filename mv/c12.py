"""C12 - numerical failures inside a trajectory are contained as rejections (fault enumeration)."""

from __future__ import annotations

import numpy as np

from mv import intgen, zoo

ID = "C12"
LEVEL = "fault_enumeration"
RULE = (
    "each case is one configuration (transition kind static / random / multinomial / slice x integrator incl. implicit "
    "leapfrog / midpoint with both fixed-point solvers and constrained leapfrog with the three projection solvers x "
    "zoo system class). A fault-free 3-iteration chain is run once with counting wrappers on every user function; this "
    "fixes the number N_f of calls made inside Transition.sample per function. Then for every function f, call index "
    "k < N_f (all up to a cap in thorough; first / last / strided in quick) and value fault {NaN, +inf, -inf} the chain "
    "is re-run with that single call perturbed; exception faults {ValueError, numpy LinAlgError, mici LinAlgError} are "
    "injected only while a wrapped solver callable is on the stack; forced non-convergence = solver max_iters 1-4. "
    "Oracle: sample returns; returned state finite, its position is the start or the output of a step that returned "
    "(and on the manifold when constrained); exceptions leaving integrator.step are mirrored by the statistics flags with accept_stat 0; a NaN "
    "energy gives acceptance 0 / divergence; the remaining iterations run; solver wrappers let only ConvergenceError "
    "out and a direct fixed-point solve returns only a converged iterate. distinct_nontrivial = distinct (transition, "
    "system class, integrator, solver, function, fault kind, position class of the call index, outcome class)."
)
ASSUMPTIONS = [
    "value faults replace the whole primary numeric output of one user-function call (closures are wrapped so that their "
    "result is replaced)",
    "exception faults are only injected inside iterative solves (the scope the property gives them)",
]
REQUIRED = {"faults_injected": 300, "step_exception_flag_checks": 20}
BUDGET_S = {"quick": 240, "thorough": 2400}
T_ITER = 3


def shard_setup(obs) -> None:
    from mv import common

    common.setup_paths()


def gen_cases(tier: str, seed: int):
    n = {"quick": 60, "thorough": 250}[tier]
    rng = np.random.default_rng([seed, 12])
    combos = []
    for k in zoo.SYSTEMS:
        for ik in zoo.compatible_integrators(k):
            if ik in ("bcss3", "bcss4", "symcomp"):
                continue
            combos.append((k, ik))
    for i in range(n):
        k, ik = combos[i % len(combos)]
        spec = zoo.random_sys_spec(rng, kinds=(k,), dim_range=(2, 3), metrics=("none", "diag", "dense", "chol_lower", "scaled"))
        ispec = intgen.random_int_spec(rng, k, tight=False, kinds=(ik,))
        if "n_inner_step" in ispec:
            ispec["n_inner_step"] = int(rng.integers(1, 3))
        yield {"spec": spec, "ispec": ispec, "transition": ["static", "multinomial", "slice", "random"][i % 4],
               "frac": float(rng.uniform(0.1, 0.5)), "forced": bool(i % 5 == 4), "seed": [seed, int(rng.integers(0, 2**31))],
               "max_per_fn": {"quick": 5, "thorough": 30}[tier]}


class Ctx:
    def __init__(self) -> None:
        self.in_transition = False
        self.solver_depth = 0
        self.counts: dict = {}
        self.plan = None  # (fn name, in-transition call index, kind)
        self.fired = False
        self.fired_during_step = False
        self.probe = False


def perturb(out, kind):
    """Replace the primary numeric output by the fault value."""
    val = {"nan": np.nan, "+inf": np.inf, "-inf": -np.inf}[kind]

    def bad_like(x):
        if callable(x):
            def closure(v):
                r = np.asarray(x(v), dtype=float)
                return np.full(r.shape, val)
            return closure
        a = np.asarray(x, dtype=float)
        return np.full(a.shape, val) if a.ndim else float(val)

    if isinstance(out, tuple):
        return (bad_like(out[0]), *out[1:])
    return bad_like(out)


def make_exception(kind):
    from mici import errors

    if kind == "ValueError":
        return ValueError("injected value error")
    if kind == "numpy.LinAlgError":
        return np.linalg.LinAlgError("injected numpy linear algebra error")
    return errors.LinAlgError("injected mici linear algebra error")


def build(case, obs, ctx, forced=False):
    """Model + integrator + transition with solver monitors attached."""
    import mici
    from mici import solvers
    from mici.errors import ConvergenceError

    spec, ispec = case["spec"], dict(case["ispec"])
    m = zoo.Model(spec)
    rng = np.random.default_rng([abs(int(s)) for s in case["seed"]])
    q, p = m.random_point(rng)
    ispec["step_size"] = case["frac"] / intgen.frequency(m, q)
    if forced:
        ispec["solver_kwargs"] = dict(ispec.get("solver_kwargs", {}), max_iters=forced)
    integ = zoo.make_integrator(m, ispec)

    def hook(name, idx, out):  # noqa: ARG001
        if not ctx.in_transition or ctx.probe:
            return out
        k = ctx.counts.get(name, 0)
        ctx.counts[name] = k + 1
        pl = ctx.plan
        if pl is not None and pl[0] == name and pl[1] == k and not ctx.fired:
            if pl[2] in ("nan", "+inf", "-inf"):
                ctx.fired = ctx.fired_during_step = True
                return perturb(out, pl[2])
            if ctx.solver_depth > 0:
                ctx.fired = ctx.fired_during_step = True
                raise make_exception(pl[2])
        return out

    m.fault = hook

    def monitor_fp(solver, name):
        def monitored(func, x0, **kw):
            pairs = []

            def rec(x):
                y = func(x)
                pairs.append((np.array(x, dtype=float), np.array(y, dtype=float)))
                return y

            ctx.solver_depth += 1
            try:
                out = solver(rec, x0, **kw)
            except ConvergenceError:
                obs.count("solver.raise_convergence")
                raise
            except Exception as e:  # noqa: BLE001
                obs.violation(f"solver-foreign-exception:{type(e).__name__}:{name}", f"{name} let {type(e).__name__} ({e}) escape")
                raise
            finally:
                ctx.solver_depth -= 1
            obs.count("solver.fixed_point_returns")
            tol = kw.get("convergence_tol", 1e-9)
            o = np.asarray(out, dtype=float)
            if not np.all(np.isfinite(o)):
                obs.violation(f"solver-returned-non-finite:{name}", f"{name} returned a non-finite result")
            elif name == "direct" and pairs:
                xin, xout = pairs[-1]
                if not np.array_equal(o, xout) or not np.max(np.abs(xout - xin)) < tol:
                    obs.violation(f"solver-returned-unconverged:{name}", f"{name} returned although the last update was {np.max(np.abs(xout - xin)):.3e} >= {tol}")
            if np.all(np.isfinite(o)):
                # a returned value must actually be a fixed point (to within a generous multiple of the tolerance)
                ctx.probe = True
                try:
                    res = float(np.max(np.abs(np.asarray(func(np.array(o)), dtype=float) - o)))
                except Exception:  # noqa: BLE001
                    res = 0.0
                finally:
                    ctx.probe = False
                obs.maxi(f"fixed_point_residual_over_tol.{name}", res / tol)
                # judged for the direct iteration only: Steffensen returns the Aitken-extrapolated point when it moved
                # by less than the tolerance, which for a strongly expansive map (|f'| >> 1e3) is close to the fixed
                # point in x although |f(x) - x| is not small - the residual is recorded (maxi above), not judged
                if name == "direct" and res > 1e3 * tol * (1 + float(np.max(np.abs(o)))):
                    obs.violation(f"solver-returned-non-fixed-point:{name}", f"{name} returned x with |f(x) - x| = {res:.3e} (tolerance {tol})")
            return out

        return monitored

    def monitor_pr(solver, name):
        def monitored(state, state_prev, time_step, system, **kw):
            ctx.solver_depth += 1
            try:
                out = solver(state, state_prev, time_step, system, **kw)
            except ConvergenceError:
                obs.count("solver.raise_convergence")
                raise
            except Exception as e:  # noqa: BLE001
                obs.violation(f"solver-foreign-exception:{type(e).__name__}:{name}", f"{name} let {type(e).__name__} ({e}) escape")
                raise
            finally:
                ctx.solver_depth -= 1
            obs.count("solver.projection_returns")
            tol = kw.get("constraint_tol", 1e-9)
            c = np.max(np.abs(m.constraint.c(np.asarray(state.pos, dtype=float))))
            if not c < tol:
                obs.violation(f"solver-returned-unconverged:{name}", f"{name} returned with |c| = {c!r} (tolerance {tol})")
            return out

        return monitored

    if hasattr(integ, "fixed_point_solver"):
        integ.fixed_point_solver = monitor_fp(integ.fixed_point_solver, ispec.get("solver", "direct"))
    if hasattr(integ, "projection_solver"):
        integ.projection_solver = monitor_pr(integ.projection_solver, ispec.get("solver", "newton"))
    tkind = case["transition"]
    if tkind == "static":
        tr = mici.transitions.MetropolisStaticIntegrationTransition(m.system, integ, n_step=3)
    elif tkind == "random":
        tr = mici.transitions.MetropolisRandomIntegrationTransition(m.system, integ, n_step_range=(1, 4))
    elif tkind == "multinomial":
        tr = mici.transitions.MultinomialDynamicIntegrationTransition(m.system, integ, max_tree_depth=2)
    else:
        tr = mici.transitions.SliceDynamicIntegrationTransition(m.system, integ, max_tree_depth=2)
    _ = solvers
    return m, integ, tr, q, p


def run_chain(case, obs, plan, forced=False):
    """Run the chain with one planned fault; returns outcome description."""
    from mici.errors import IntegratorError

    ctx = Ctx()
    ctx.plan = plan
    m, integ, tr, q, p = build(case, obs, ctx, forced)
    g = np.random.default_rng(case["seed"][1] % (2**31))
    st = m.state(q, p)
    real_step = integ.step
    step_log = []  # (exception class name or None, output position bytes or None, tainted)

    def step(state):
        ctx.fired_during_step = False
        try:
            out = real_step(state)
        except IntegratorError as e:
            step_log.append((type(e).__name__, None, ctx.fired_during_step))
            raise
        except Exception as e:  # noqa: BLE001
            step_log.append((f"FOREIGN:{type(e).__name__}", None, ctx.fired_during_step))
            raise
        step_log.append((None, np.asarray(out.pos).tobytes(), ctx.fired_during_step))
        return out

    integ.step = step
    # energies the transition reads: (number of step calls made so far, whether the last one succeeded, value)
    h_log = []
    real_h = m.system.h

    def h_hook(state):
        v = real_h(state)
        try:
            h_log.append((len(step_log), bool(step_log) and step_log[-1][0] is None, float(v)))
        except (TypeError, ValueError):
            pass
        return v

    try:
        m.system.h = h_hook
    except AttributeError:
        pass
    outcome = {"escaped": None, "iters": [], "constraint": m.constraint}
    for it in range(T_ITER):
        st.mom = m.system.sample_momentum(st, g)
        start_pos = np.array(st.pos)
        del step_log[:]
        del h_log[:]
        ctx.in_transition = True
        fired_before = ctx.fired
        try:
            new_state, stats = tr.sample(st, g)
        except Exception as e:  # noqa: BLE001
            from mv.common import mici_site

            outcome["escaped"] = (type(e).__name__, mici_site(e) or "harness", it, str(e)[:200])
            ctx.in_transition = False
            return outcome, ctx
        finally:
            ctx.in_transition = False
        fired_now = ctx.fired and not fired_before
        outcome["iters"].append({"fired": fired_now, "stats": dict(stats), "steps": list(step_log), "h_log": list(h_log), "start": start_pos,
                                 "pos": np.array(new_state.pos), "mom": np.array(new_state.mom)})
        st = new_state
    return outcome, ctx


def judge(obs, case, plan, outcome, label, constraint=None):  # noqa: C901, PLR0912
    tkind = case["transition"]
    ctxs = f"{label}; transition={tkind} sys={case['spec']['sys']} int={case['ispec']} metric={case['spec'].get('metric')}"
    if outcome["escaped"] is not None:
        name, site, it, msg = outcome["escaped"]
        where = "inside-solver" if plan and plan[2] in ("ValueError", "numpy.LinAlgError", "mici.LinAlgError") else "value-fault"
        obs.violation(f"exception-escaped-sample:{name}@{site}:{where}:{plan[0] if plan else 'no-fault'}",
                      f"{name} ({msg}) escaped Transition.sample in iteration {it}; {ctxs}")
        return "escaped"
    cls = "no-effect"
    for rec in outcome["iters"]:
        pos, mom = rec["pos"], rec["mom"]
        stats = rec["stats"]
        if not (np.all(np.isfinite(pos)) and np.all(np.isfinite(mom))):
            obs.violation(f"non-finite-state-returned:{tkind}", f"transition returned a non-finite state; {ctxs}")
            return "non-finite"
        # a step during which a transient fault fired may still succeed (line search discards the NaN trial point, the
        # reverse check runs on a copy ...): its output is a valid candidate if the integrator returned it
        outputs = {b for (exc, b, tainted) in rec["steps"] if b is not None}
        pb = pos.tobytes()
        if pb != rec["start"].tobytes() and pb not in outputs:
            obs.violation(f"returned-state-not-a-valid-candidate:{tkind}",
                          f"returned position is neither the start nor the output of a successful step of this trajectory; {ctxs}")
        if constraint is not None and not np.max(np.abs(constraint.c(pos))) < 1e-8:
            obs.violation(f"returned-state-off-manifold:{tkind}", f"returned position violates the constraint by {np.max(np.abs(constraint.c(pos))):.2e}; {ctxs}")
        raised = [exc for (exc, _b, _t) in rec["steps"] if exc is not None]
        if tkind in ("static", "random"):
            # a Metropolis transition proposes the END of its trajectory: a trajectory cut short by a failure is a
            # rejection (state unchanged), and no intermediate state is ever a candidate
            obs.count("metropolis_outcomes_checked")
            if raised and pb != rec["start"].tobytes():
                obs.violation(f"moved-after-integration-failure:{tkind}",
                              f"{raised[0]} cut the trajectory after {sum(1 for s_ in rec['steps'] if s_[1] is not None)} successful step(s) "
                              f"but the chain moved to the truncated trajectory's last state; {ctxs}")
            elif not raised and pb != rec["start"].tobytes() and rec["steps"] and pb != rec["steps"][-1][1]:
                obs.violation(f"intermediate-state-accepted:{tkind}", f"the accepted state is not the end point of the trajectory; {ctxs}")
        for exc in raised:
            obs.count("step_exception_flag_checks")
            flag = {"ConvergenceError": "convergence_error", "NonReversibleStepError": "non_reversible_step",
                    "HamiltonianDivergenceError": "diverging"}.get(exc)
            if exc.startswith("FOREIGN"):
                obs.violation(f"foreign-exception-left-step:{exc}", f"{exc} left integrator.step; {ctxs}")
            elif flag is not None and flag in stats and not stats[flag]:
                obs.violation(f"flag-not-recorded:{flag}:{tkind}", f"{exc} left a step but statistic {flag} is False; {ctxs}")
            if float(stats["accept_stat"]) != 0.0 and flag is not None:
                obs.violation(f"accept_stat-nonzero-after-failure:{tkind}", f"accept_stat={stats['accept_stat']} although {exc} cut the trajectory; {ctxs}")
        # a dynamic transition that read a NaN / +inf energy at a state produced by a successful step has met a
        # divergence ("NaN energy is infinite energy"): it must be recorded in the statistics
        if tkind in ("multinomial", "slice") and "diverging" in stats:
            hl = rec.get("h_log") or []
            init = [v for (n, _ok, v) in hl if n == 0]
            bad = [v for (n, ok, v) in hl if n > 0 and ok and (np.isnan(v) or v == np.inf)]
            if hl:
                obs.count("dynamic_energy_reads_checked", len(hl))
            if init and np.isfinite(init[0]) and bad:
                obs.count("non_finite_leaf_energies_seen")
                if not stats["diverging"]:
                    obs.violation(f"non-finite-energy-not-recorded-as-divergence:{tkind}",
                                  f"the transition read energy {bad[0]} at a state returned by a successful step (initial energy {init[0]:.3g}) "
                                  f"but statistic diverging is False; {ctxs}")
        # converse: a solver-failure flag may only be set by an exception that left a step of *this* transition
        for flag, exc in (("convergence_error", "ConvergenceError"), ("non_reversible_step", "NonReversibleStepError")):
            if stats.get(flag) and exc not in raised:
                obs.violation(f"flag-set-without-failure:{flag}:{tkind}",
                              f"statistic {flag} is True although no {exc} left a step of this transition (exceptions seen: {raised}); {ctxs}")
        if rec["fired"]:
            if raised:
                cls = f"rejected-with-{raised[0]}"
            elif stats.get("diverging"):
                cls = "divergence-flag"
            elif pb == rec["start"].tobytes():
                cls = "state-unchanged"
            else:
                cls = "other-candidate-accepted"
        if not np.isfinite(float(stats["accept_stat"])):
            obs.violation(f"accept_stat-non-finite:{tkind}", f"accept_stat={stats['accept_stat']}; {ctxs}")
    if len(outcome["iters"]) != T_ITER:
        obs.violation("chain-did-not-continue", f"only {len(outcome['iters'])} iterations ran; {ctxs}")
    return cls


def run_case(case, obs) -> None:
    tkind = case["transition"]
    # fault-free reference: number of in-transition calls per function
    ref, ctx = run_chain(case, obs, None, forced=False)
    judge(obs, case, None, ref, "fault-free run", ref["constraint"])
    if ref["escaped"] is not None:
        return
    counts = dict(ctx.counts)
    obs.count("configurations")
    obs.count("fault_free_calls", sum(counts.values()))
    has_solver = case["ispec"]["int"] in ("implicit_leapfrog", "implicit_midpoint", "constrained")
    if case["forced"] and has_solver:
        for mi in (1, 2, 3, 4):
            out, _ = run_chain(case, obs, None, forced=mi)
            cls = judge(obs, case, None, out, f"forced non-convergence (max_iters={mi})", out["constraint"])
            obs.count("forced_nonconvergence_runs")
            n_conv = sum(1 for rec in out["iters"] for (exc, _b, _t) in rec["steps"] if exc == "ConvergenceError")
            obs.count("forced_convergence_errors_seen", n_conv)
            obs.token("forced", tkind, case["spec"]["sys"], case["ispec"]["int"], case["ispec"].get("solver"), cls, mi)
    kinds = ["nan", "+inf", "-inf"] + (["ValueError", "numpy.LinAlgError", "mici.LinAlgError"] if has_solver else [])
    for fn, n in sorted(counts.items()):
        idxs = sorted({0, n - 1, n // 2} | set(range(1, n, max(1, n // case["max_per_fn"]))))[: case["max_per_fn"] + 3]
        for k in idxs:
            for kind in kinds:
                plan = (fn, k, kind)
                out, c2 = run_chain(case, obs, plan)
                if not c2.fired:
                    obs.count("faults_not_reached" if kind in ("nan", "+inf", "-inf") else "exception_faults_outside_solver_skipped")
                    continue
                obs.count("faults_injected")
                obs.count(f"injected.{fn}.{kind}")
                cls = judge(obs, case, plan, out, f"fault {kind} at call {k}/{n} of {fn}", out["constraint"])
                obs.count(f"outcome.{cls}")
                pc = "first" if k == 0 else ("last" if k == n - 1 else "middle")
                obs.token(tkind, case["spec"]["sys"], case["ispec"]["int"], case["ispec"].get("solver", "-"), fn, kind, pc, cls)
    obs.sample({"transition": tkind, "sys": case["spec"]["sys"], "int": case["ispec"], "fault_free_calls": counts})
