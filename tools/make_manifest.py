"""Regenerate /verif/MANIFEST.json from the table below (run with any python3)."""

import json
import subprocess
from pathlib import Path

VERIF = Path(__file__).resolve().parent.parent
BASE = json.load(open("/root/.vp/BASELINE.json"))

# id -> (level, technique, text, note, design_ref)
CHECKS = {
    "C20": (
        "exploration",
        "differential oracle: real helpers/operators vs 80-digit decimal reference over generated operand classes",
        "Runtime differential monitor: every generated call of log1p_exp/log1m_exp/log_sum_exp/log_diff_exp and of the "
        "LogRepFloat operators (binary, mixed, comparisons, in-place accumulation sequences up to 50 terms) on the real "
        "code is judged against exact decimal arithmetic within 8 ulp of the operand/result scale. Exploration is the "
        "right level: the input space is a product of floats; coverage is by magnitude/relation classes, not proof.",
        "Trusts python's decimal module at 80 digits; mixed arithmetic with plain numbers judged only where the plain "
        "value is representable (|log_val|<=700); near-tie mixed comparisons (within 64 ulp) are skipped as inconclusive.",
        "DESIGN.md section 3, C20",
    ),
}

CHECKS.update({
    "C10": (
        "exploration",
        "differential oracle: random operator programs over every matrix class vs an independent dense shadow",
        "Runtime differential monitor over generated expression trees: every class and constructor option (signs, "
        "lower/upper, supplied factors/LU/eigendecompositions, implicit sizes, inner matrices, nested blocks and low-rank "
        "parts, sizes 1-6) is combined by random programs of T/inv/sqrt/neg/scalar ops/Matrix@Matrix/block/low-rank "
        "composition (depth <=4 quick, <=8 thorough); after every step array, products, diagonal, transpose, "
        "log_abs_det, inverse, eigen-decomposition and sqrt are compared with dense numpy algebra and class-retention "
        "rules are checked. Exploration: the space of expression trees is unbounded; coverage is counted by (leaf, "
        "operator sequence).",
        "Trusts numpy/scipy dense algebra on shadows with cond <= 1e6; tolerance 1e-7 relative; low-rank factors are "
        "generated with full column rank (dim_inner <= dim_outer).",
        "DESIGN.md section 3, C10",
    ),
    "C11": (
        "exploration",
        "differential oracle: reported gradients vs 4th-order finite differences of the dense parametrisation",
        "Runtime differential monitor: for every differentiable matrix class and option (both signs, lower/upper, "
        "with/without inner matrix, SoftAbs coefficients 1e-2..1e2, block compositions, well separated / nearly equal / "
        "bit-identical Hessian eigenvalues) grad_log_abs_det and grad_quadratic_form_inv are compared along a complete "
        "basis of parameter directions, and in structure, with finite differences of log|det| and v'M^-1v of the dense "
        "formula.",
        "Finite differences decide to ~2e-6 relative; symmetric-array parameters judged along symmetric directions.",
        "DESIGN.md section 3, C11",
    ),
    "C19": (
        "exploration",
        "invariant monitors: operand content hashing, access-order permutation, equality/hash/copy laws, write probes",
        "Runtime monitors on real matrix objects: (1) sha1 of every caller-supplied array and operand before/after every "
        "operation and lazy-attribute access of generated operator programs; (2) equal-parameter instances queried in "
        "independent random attribute orders must agree and be bitwise repeatable; (3) ==/hash/copy/deepcopy/pickle "
        "laws before and after lazy attributes exist; (4) near-miss pairs: == must imply equal arrays; (5) in-place "
        "writes through parameter arrays must raise or leave the operator unchanged.",
        "Order independence compared at 1e-12 relative; write probes cover parameter arrays, not derived caches.",
        "DESIGN.md section 3, C19",
    ),
})

CHECKS.update({
    "C02": ("exploration", "history oracle: n steps / dir flip / n steps round trip + per-call input-state byte snapshots",
            "Runtime monitor around every real Integrator.step call: round trips of every integrator class on every "
            "compatible zoo system (position-dependent metrics, curved multi-constraint manifolds, compositions of 1-8 "
            "stages with random coefficients, all solvers, default and tightened tolerances, both directions, 1-25 steps) "
            "must return to the start or fail with an IntegratorError; the input state's bytes are compared before/after "
            "every call, also on failure.",
            "Tolerances calibrated on the unchanged tree (worst observed 1% of the bound); rounding amplification on "
            "diverging trajectories is counted inconclusive.", "DESIGN.md section 3, C02"),
    "C03": ("exploration", "finite-difference Jacobian of the n-step map: J^T Omega J = Omega (induced form on T*M when constrained)",
            "Runtime monitor forming central-difference Jacobians of the real 1-3 step maps on non-linear, "
            "position-dependent-metric and curved-manifold systems; constrained systems use an independently computed "
            "tangent basis of T*M and retracted curves.", "Decides symplecticity to 1e-6 (FD, h=1e-5).", "DESIGN.md section 3, C03"),
    "C04": ("exploration", "icontract post-conditions on the real step / projection / momentum functions and solver return contracts",
            "icontract post-conditions attached from the harness to ConstrainedLeapfrogIntegrator.step, "
            "project_onto_cotangent_space, sample_momentum and wrappers on the three projection solvers (residual below "
            "tolerance, Lagrange-multiplier form of the correction, only ConvergenceError escapes) stay on while "
            "standalone trajectories and full constrained HMC chains run; evaluation counts per contract are reported.",
            "Constraint residual judged with the zoo's own constraint function (bitwise what the solver saw).", "DESIGN.md section 3, C04"),
    "C05": ("exploration", "differential oracle: system methods vs independent dense Hamiltonian and its finite differences",
            "Every value and derivative method of all ten system classes (every metric matrix type, every return "
            "convention of the user functions) is compared with the documented formula evaluated by independent dense code "
            "and with 4th-order finite differences of it; sum rules checked.", "FD decides derivatives to 2e-6 relative.",
            "DESIGN.md section 3, C05"),
    "C06": ("exploration", "differential oracle: one step vs DOP853 reference flow at eps, eps/2, eps/4; composition coefficient invariants",
            "One real step is compared with a high-accuracy ODE/DAE solution of the zoo's independent Hamiltonian; the "
            "observed local-error and energy-error orders and the 'closer to flow(eps) than flow(2eps), flow(eps/2)' test "
            "decide consistency; coefficient sets of constructed compositions are checked for unit sums and palindromy.",
            "Reference flow noise floor 1e-9; orders are medians over 5 states x 2 halvings.", "DESIGN.md section 3, C06"),
    "C07": ("exploration", "differential oracle: component flows vs matrix exponential / analytic kick; group-law invariants",
            "h1_flow/h2_flow/dh2_flow_dmom of every tractable system with every constant metric type (incl. implicit "
            "identity) against expm of the dense generator, energy conservation, additivity, inverse, |t| up to 50.",
            "scipy.linalg.expm is the reference.", "DESIGN.md section 3, C07"),
    "C08": ("exploration", "scripted-generator extraction of the linear map L; L L^T and Crank-Nicolson invariance identities",
            "A scripted generator hands prescribed normal vectors to the real sample_momentum / momentum transitions; the "
            "extracted L must satisfy L L^T = metric (projected when constrained), and the correlated update "
            "A S A^T + B B^T = S; coefficient 0/1 special cases bitwise.", "Dense numpy algebra reference at 1e-8.",
            "DESIGN.md section 3, C08"),
    "C16": ("exploration", "exhaustive stager grid + write recorders / adapter call log on real sample_chains runs",
            "(a) stages() of both stagers enumerated for every n_warm in 0..600 x n_main x adapter mixes x nine window "
            "settings and checked for exact partition and adapter placement; (b) real sampler runs with __setattr__ "
            "recorders on integrator/system and logging adapter subclasses: no parameter write after the main stage "
            "starts, main-stage values are those of the last finalize with >=1 update, empty stages make no adapter call.",
            "Sampler part sequential (n_process=1); grid exhaustive only for the listed window settings.", "DESIGN.md section 3, C16"),
    "C17": ("exploration", "history + executable reference model (Hoffman-Gelman recursion; exact rational pooled moments)",
            "The real adapters are driven directly with generated histories and compared update by update with an "
            "independent dual-averaging recursion, and with exact Fraction arithmetic for variance/covariance over random "
            "partitions into chains (very unequal sizes, random order, offsets up to 1e6 x spread); initial step-size "
            "search re-evaluated at the returned step size and its neighbour.", "Tolerance 5*n*eps*(1+|mean|/std).",
            "DESIGN.md section 3, C17"),
})

CHECKS.update({
    "C01": ("exploration", "exact transition kernel by enumerating every internal random decision with a scripted generator; stationarity of exp(-H) on the orbit",
            "The real Transition.sample is re-executed under a scripted generator whose symbolic variates turn every "
            "comparison the code makes (U < p, integers, slice-variable tests) into a branch of a depth-first path "
            "controller carrying exact probabilities; all paths from every start state in the source window give the "
            "exact kernel on a recorded integrator orbit (real systems/integrators, or table doubles with ties, infinite "
            "/ NaN energies, symmetric step failures and random termination tables), on which sum_i pi_i P(i->j) = pi_j "
            "is checked to 1e-9; n_step and accept_stat are recomputed on every path. Exact per configuration, "
            "exploration over configurations (tree depth <= 3 quick / 4 thorough).",
            "Real integrators are recorded as orbits and replayed (their own correctness is C02/C03/C06); multinomial "
            "transitions are judged with max_delta_h=1000 because their divergence test is relative to the start state.",
            "DESIGN.md section 3, C01"),
    "C09": ("exploration", "history + from-scratch reference: random programs over states/systems, every call compared with a fresh state; cache-defeating state subclass",
            "Random histories (assign, in-place, copy, read-only copy, pickle, call, flow, new system object; two systems "
            "sharing up to 5 related states) run on the real code; after every call the result is compared with the same "
            "call on a freshly built state; integrator steps and all four transitions are repeated on a ChainState "
            "subclass whose cache never hits and must agree bitwise.",
            "Judges caching only (values are C05); id-reuse and aliasing mechanisms are recorded known findings.", "DESIGN.md section 3, C09"),
    "C12": ("fault_enumeration", "single-fault injection at enumerated call indices of every user function + solver exception discipline wrappers",
            "A fault-free chain fixes the in-transition call counts; each (function, call index, fault kind) is then "
            "injected alone (NaN / +-inf values everywhere, ValueError / LinAlgError only inside iterative solves, forced "
            "non-convergence) and the transition must return a finite valid candidate, mirror step failures in the "
            "statistics flags with accept_stat 0, and let the chain continue; solver wrappers check that only "
            "ConvergenceError leaves a solve.", "Quick tier strides the call indices; thorough enumerates them up to 40 per function.",
            "DESIGN.md section 3, C12"),
    "C13": ("exploration", "per-process event log of post-iteration states (proxy transition) vs returned arrays; cross-mode equality",
            "A proxy of the last transition logs each post-iteration state and statistics to per-process files; rows of "
            "every returned trace/statistic array must equal the logged recorded iteration bitwise with the declared "
            "dtype, lengths exact, no fill value left, final state = last logged state; the same seeded configuration "
            "re-run with forced / user-directory memmaps and n_process 2, 3, None must return equal arrays and .npy files.",
            "Bare-array initial states are mapped to chains by call order (sequential only).", "DESIGN.md section 3, C13"),
    "C14": ("exploration", "cross-run history comparison under perturbed schedules; generator-state snapshot log",
            "The same seeded configuration is run sequentially and with 2-4 worker processes under per-chain delay patterns "
            "that permute chain->worker assignment and completion order (both extracted from the logs and listed in the "
            "evidence); outputs must be bitwise equal; chain c must not depend on the number or start of other chains; "
            "generator-state snapshots at every iteration start must be duplicate free and advancing.",
            "Schedule coverage is what the delay patterns produced; < 2 distinct assignments or orders = inconclusive.", "DESIGN.md section 3, C14"),
    "C15": ("fault_enumeration", "interrupt injection at logged call sites (exception and real SIGINT) vs uninterrupted reference run",
            "The uninterrupted run logs every in-iteration call of the density, gradient and trace functions; the run is "
            "repeated with KeyboardInterrupt raised from chosen calls (sequential, multi-process, memmap directory) and "
            "with a real SIGINT to the process group in a child session; completed rows must equal the reference, "
            "unreached rows hold fill values, final states sit at the last completed iteration, no later stage starts, "
            ".npy files are flushed.", "Real-SIGINT runs hit every worker at an arbitrary point; a hang is classified only when the dump shows the parent blocked in results.get().",
            "DESIGN.md section 3, C15"),
    "C18": ("exploration", "history + executable reference cache model with call counters; evaluation-count bounds on trajectories",
            "Counting wrappers on every user model function while the C09 histories run; a minimal per-(state, system) "
            "reference cache model decides, before each call, which values were already known: a known value must not be "
            "re-evaluated and nothing is evaluated twice in one call; chains through all transition kinds with explicit "
            "integrators must stay within (h1 sub-steps) x steps + directions gradient evaluations per transition with "
            "no repeated evaluation at identical arguments.", "The model is the weakest the property implies (order inside one call not judged).",
            "DESIGN.md section 3, C18"),
})

NOT_YET = "check not built yet in this session (in progress; see DESIGN.md section 3 for the planned monitor)"



# additions of the third pass (see DESIGN.md section 8.4): appended to the level text of each check
EXTRA_TEXT = {
    'C01': ' A directed strongly anisotropic Gaussian family (depth 3, overlapping sub-tree checks on) and slice-variable comparisons that return numpy booleans like the real float64 comparisons are part of every run.',
    'C02': ' Start states carry a history (cache populated elsewhere, then copied/pickled/deep-copied, then assigned); after the first round trip system.metric is reassigned on the used system and the trip repeated at the same step size; a hostile implicit family (Riemannian systems, steps up to 6x the local period scale, momenta up to 12 sigma) drives the reversibility checks into refusing steps.',
    'C03': ' The finite-difference Jacobian is formed from start states that carry a history (used elsewhere, then copied/pickled/deep-copied, then assigned).',
    'C04': " One state object is moved over several manifold points without assigning a momentum (contracts judge every projection/momentum draw at the current position); the real metric adapters' finalize is driven on a used state and whole chains with a windowed stager and a metric adapter are judged against the adapted metric; a hostile family sizes steps without regard to curvature on restricted-domain (log) and explosively growing (exp) constraints.", 'C05': ' Every case also runs a 14-call history on ONE state object (position-only / momentum-only / joint re-assignments, a copy in the middle, repeats) judging every returned value; SoftAbs systems are evaluated at exactly and nearly repeated Hessian eigenvalues with rotated eigenvectors; systems are used for flows / momentum draws before any value method in half of the cases; raw array metrics at overall scales 1e-12..1e6.',
    'C06': ' After the first measurement system.metric is reassigned on the used system and the orders are measured again against the flow of the new Hamiltonian; start states carry a history.',
    'C07': " Repeated h1 kicks on one state must add up and be undone by the negative total; the system's own h2 must be conserved along h2_flow (evaluated only after the flow ran).", 'C08': ' Constant metrics include every combination of 9 base classes with 13 expression templates (positive multiples, quotients, inverses formed before/after sqrt / eigendecomposition / inverse of the operand were computed).',
    'C09': ' Templates include methods evaluated for the first time on a read-only (optionally pickled) snapshot followed by re-assignment of a writable copy.',
    'C11': ' Gradients are requested in either order, twice, after other lazy attributes; low-rank updates also with a caller-supplied capacitance matrix; dense definite matrices with bare array, caller-supplied lower/upper/inverse-triangular factor, or obtained as the inverse of another dense matrix.',
    'C12': ' Metropolis transitions must reject (state unchanged) whenever an exception cut the trajectory and never accept an intermediate state; system.h is hooked during every transition and a NaN/+inf energy read by a dynamic transition after a successful step must leave diverging=True.',
    'C13': ' Configurations with two statistics-bearing transitions declaring the same statistic names are judged row by row per transition; files in a user memmap directory are matched to returned arrays by content (the naming scheme is undocumented).',
    'C15': ' Interrupts are also injected at the same point of EVERY chain with more chains than workers (queued chains never start); memory-map files are matched by content.',
    'C16': ' A third of the stager grid and of the sampler runs use adapters whose is_fast flag is computed (a numpy.bool_ from an array comparison) instead of a bool class attribute.',
    'C17': ' A constrained-system case drives the real metric adapters on chain states used under the old metric and compares the refreshed momentum with P_new L_new z.',
    'C19': ' The derived objects (T, inv, sqrt: their array, inverse, determinant) of two equal instances queried in different orders - including derived-last vs derived-first - must agree.',
    'C20': ' Sums/differences are judged at the achievable scale eps*(|larger operand|+|result|) plus the rounding of lo-hi; programs mix in-place adds of plain numbers with reads of the linear value, which is judged after every step.',
}
for _k, _add in EXTRA_TEXT.items():
    _lv, _tech, _text, _note, _ref = CHECKS[_k]
    CHECKS[_k] = (_lv, _tech, _text + _add, _note, _ref)


def main() -> None:
    props = [json.loads(line) for line in open(VERIF / "properties.jsonl")]
    hooks_commits = []
    try:
        out = subprocess.run(["git", "-C", "/repo", "log", "--format=%H %s"], capture_output=True, text=True).stdout
        hooks_commits = [ln.split()[0] for ln in out.splitlines() if ln.split(" ", 1)[1].startswith("verif-hook:")]
    except Exception:  # noqa: BLE001
        pass
    man = {
        "version": 1,
        "setup_cmd": "/venv/bin/pip install -q --no-index --find-links /opt/veriftools/wheels --target /verif/.deps icontract deal || true",
        "hooks": {
            "guard": "MICI_VERIF",
            "enable": "checks run with MICI_VERIF=1 in the environment; all instrumentation is attached from the harness "
                      "(wrappers, subclasses, icontract decorators) to the code imported from /repo/src, nothing is built",
            "baseline_off_cmd": BASE["cmd"].replace("<file>", "/tmp/mici-baseline.junit.xml"),
            "source_commits": hooks_commits,
            "add_only": True,
        },
        "engines": [
            {
                "name": "mv",
                "path": "mv/",
                "serves_properties": sorted(CHECKS),
                "kind_free_text": "runtime monitors (differential oracles, reference-model checkers, contracts, fault and "
                                  "interrupt injection) over generated executions of the real mici code, sharded over "
                                  "subprocesses",
            },
        ],
        "checks": [],
        "not_applicable": [],
        "notes": "All checks: ./check <id> <tier>; VERIF_SEED honoured; evidence/<id>.json rewritten on every run; known "
                 "findings in known_findings.json. Exit 2 = inconclusive/broken run (deciding monitor not reached).",
    }
    for p in props:
        pid = p["id"]
        if pid in CHECKS:
            level, tech, text, note, ref = CHECKS[pid]
            man["checks"].append({
                "property_id": pid,
                "quick_cmd": f"./check {pid} quick",
                "thorough_cmd": f"./check {pid} thorough",
                "evidence_file": f"/verif/evidence/{pid}.json",
                "replay_cmd_template": f"./check {pid} --replay {{path}}",
                "engine": "mv",
                "level_claimed": {"category": level, "text": text, "design_ref": ref},
                "level_note": note,
                "technique": tech,
            })
        else:
            man["not_applicable"].append({"property_id": pid, "reason": NOT_YET})
    (VERIF / "MANIFEST.json").write_text(json.dumps(man, indent=1))
    print("claimed:", [c["property_id"] for c in man["checks"]])


if __name__ == "__main__":
    main()
