"""C03 - integrator steps are symplectic maps."""

from __future__ import annotations

import numpy as np
import scipy.linalg as sla

from mv import intgen, zoo

ID = "C03"
LEVEL = "exploration"
RULE = (
    "each case = (non-linear non-separable target; position dependent metrics; curved and multiple constraints) x "
    "integrator (all classes, compositions of 1-8 stages, both fixed-point solvers, three projection solvers, 1-4 inner "
    "steps; solver tolerances tightened to 1e-13 through the public kwargs) x step size x 1-3 steps. The monitor forms "
    "the central finite-difference Jacobian J of the n-step map (h=1e-5) and checks J^T Omega J = Omega; for constrained "
    "systems a basis T of the tangent space of T*M at the start point (null space of the differentiated constraint map) "
    "is pushed forward along retracted curves and (DPsi T)^T Omega (DPsi T) = T^T Omega T is checked. "
    "distinct_nontrivial = distinct (system class, metric/constraint kind, integrator kind, stages, solver, inner "
    "steps, step-size class, n steps) with a successfully formed Jacobian."
)
ASSUMPTIONS = [
    "finite differences with h=1e-5 decide symplecticity to 1e-6 (max-norm of the defect); steps that raise an "
    "IntegratorError anywhere in the stencil are skipped and counted",
]
REQUIRED = {"jacobians_formed": 80}
BUDGET_S = {"quick": 150, "thorough": 1500}
H = 1e-5
TOL = 1e-6


def shard_setup(obs) -> None:
    from mv import common

    common.setup_paths()


def gen_cases(tier: str, seed: int):
    n = {"quick": 420, "thorough": 30000}[tier]
    rng = np.random.default_rng([seed, 3])
    combos = [(k, ik) for k in zoo.SYSTEMS for ik in zoo.compatible_integrators(k)]
    for i in range(n):
        k, ik = combos[i % len(combos)]
        spec = zoo.random_sys_spec(rng, kinds=(k,), dim_range=(1, 4))
        if k in zoo.CONSTRAINED and rng.integers(0, 3):
            spec["constr"] = str(rng.choice(["sphere", "quadric", "two_quadrics"]))
            spec["dim"] = max(spec["dim"], 3)
        ispec = intgen.random_int_spec(rng, k, tight=True, kinds=(ik,))
        lo, hi = intgen.frac_range(k, ik)
        yield {"spec": spec, "ispec": ispec, "frac": float(np.exp(rng.uniform(np.log(max(lo, 0.02)), np.log(hi * 0.8)))),
               "n": int(rng.integers(1, 4)), "seed": [seed, int(rng.integers(0, 2**31))]}


def run_case(case, obs) -> None:  # noqa: C901
    from mici.errors import IntegratorError

    spec, ispec = case["spec"], dict(case["ispec"])
    rng = np.random.default_rng([abs(int(s)) for s in case["seed"]])
    m = zoo.Model(spec)
    q, p = m.random_point(rng)
    eps = case["frac"] / intgen.frequency(m, q)
    ispec["step_size"] = eps
    integ = zoo.make_integrator(m, ispec)
    iname, sname = type(integ).__name__, type(m.system).__name__
    dim = m.dim
    omega = np.block([[np.zeros((dim, dim)), np.identity(dim)], [-np.identity(dim), np.zeros((dim, dim))]])

    # the start states have a past (cache populated elsewhere, then copied / pickled / deep-copied, then assigned): the
    # step map must be the same symplectic map whatever the state object went through before
    how = case.get("state_history") or ["fresh", "pickle", "copy", "deepcopy"][int(case["seed"][-1]) % 4]

    def psi(z):
        st = m.used_state(z[:dim], z[dim:], 1, how)
        for _ in range(case["n"]):
            st = integ.step(st)
        return np.concatenate([st.pos, st.mom])

    z0 = np.concatenate([q, p])
    try:
        if not m.constrained:
            cols = []
            for i in range(2 * dim):
                e = np.zeros(2 * dim)
                e[i] = H
                cols.append((psi(z0 + e) - psi(z0 - e)) / (2 * H))
            jac = np.stack(cols, axis=1)
            defect = jac.T @ omega @ jac - omega
            vol = abs(abs(np.linalg.det(jac)) - 1)
        else:
            cn = m.constraint
            minv = np.linalg.inv(m.metric_dense)
            jq = cn.jac(q)
            hess = cn.hess(q)
            v = minv @ p
            dg = np.block([[jq, np.zeros_like(jq)], [np.einsum("ijk,j->ik", hess, v), jq @ minv]])
            tbasis = sla.null_space(dg)
            if tbasis.shape[1] != 2 * (dim - cn.n):
                obs.inconc("tangent-space-dimension")
                return

            def retract(z):
                qq = cn.project(z[:dim], minv)
                jj = cn.jac(qq)
                pp = z[dim:] - jj.T @ np.linalg.solve(jj @ minv @ jj.T, jj @ minv @ z[dim:])
                return np.concatenate([qq, pp])

            cols = []
            for i in range(tbasis.shape[1]):
                t = tbasis[:, i]
                cols.append((psi(retract(z0 + H * t)) - psi(retract(z0 - H * t))) / (2 * H))
            push = np.stack(cols, axis=1)
            defect = push.T @ omega @ push - tbasis.T @ omega @ tbasis
            vol = 0.0
    except IntegratorError as e:
        obs.count(f"skipped.{type(e).__name__}")
        return
    except FloatingPointError:
        obs.inconc("retraction-failed")
        return
    obs.count("jacobians_formed")
    d = float(np.max(np.abs(defect)))
    fam = "constrained" if m.constrained else ("explicit" if ispec["int"] in ("leapfrog", "bcss2", "bcss3", "bcss4", "symcomp") else "implicit")
    obs.maxi(f"symplectic_defect.{fam}", d, {"sys": spec["sys"], "int": ispec, "eps": eps})
    if not m.constrained:
        obs.maxi("volume_defect", vol)
    if not np.isfinite(d) or d > TOL:
        obs.violation(f"not-symplectic:{iname}:{sname}",
                      f"max |J^T Omega J - Omega| = {d:.3e} over {case['n']} step(s), eps={eps:.4g}, start states "
                      f"{'fresh' if how == 'fresh' else 'with a history (' + how + ')'}; sys={spec} int={ispec}")
    fc = "small" if case["frac"] < 0.08 else ("mid" if case["frac"] < 0.4 else "large")
    obs.token(spec["sys"], spec.get("metric", spec.get("constr", spec.get("generic", "-"))), ispec["int"], intgen.stages(ispec),
              ispec.get("solver", "-"), ispec.get("n_inner_step", 0), fc, case["n"], how)
    obs.sample({"sys": spec["sys"], "int": ispec, "eps": eps, "n": case["n"], "defect": d})
