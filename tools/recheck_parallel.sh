#!/bin/bash
# tools/recheck_parallel.sh [jobs]  -- refresh the verdicts of all seeded changes, seeds of different properties in parallel
cd /verif
jobs=${1:-4}
ls seeded | sed 's/-.*//' | sort -u | xargs -P "$jobs" -I{} sh -c 'python3 tools/recheck_seeds.py $(ls seeded | grep "^{}-") > .work/recheck_{}.log 2>&1'
cat .work/recheck_C*.log | grep -v "caught_by \['C" | head -40
