"""Generate /verif/mutants/*.diff from (file, old, new) edits against /repo HEAD.   python3 tools/make_mutants.py"""
import difflib
import subprocess
from pathlib import Path

REPO = Path("/repo")
OUT = Path("/verif/mutants")

# name -> (property ids that should catch it, file, old, new)
M = {
    "c01_missing_dir_flip": (["C01"], "src/mici/transitions.py",
        "            # Reverse integration direction of proposal to form an involution\n            state_p.dir *= -1\n",
        "            # Reverse integration direction of proposal to form an involution\n"),
    "c01_nstep_off_by_one": (["C01"], "src/mici/transitions.py",
        "                stats[\"sum_metrop_accept_prob\"] += metrop_accept_prob\n                stats[\"n_step\"] += 1\n",
        "                stats[\"sum_metrop_accept_prob\"] += metrop_accept_prob\n                stats[\"n_step\"] += 1 if depth == 0 and stats[\"n_step\"] < 5 else 2\n"),
    "c01_criterion_one_sided": (["C01"], "src/mici/transitions.py",
        "            # check termination criterion on new tree and subtrees\n            if self._termination_criterion(tree, neg_subtree, pos_subtree):\n                break\n",
        "            # check termination criterion on new tree and subtrees\n            if direction == 1 and self._termination_criterion(tree, neg_subtree, pos_subtree):\n                break\n"),
    "c01_slice_weight_strict": (["C01"], "src/mici/transitions.py",
        "        return (aux_vars[\"log_u\"] <= -h) * 1\n",
        "        return (aux_vars[\"log_u\"] <= -h - 0.05) * 1\n"),
    "c02_step_on_input": (["C02"], "src/mici/integrators.py",
        "        state = state.copy()\n        self._step(state, state.dir * self.step_size)\n        return state\n",
        "        new_state = state.copy()\n        self._step(new_state, state.dir * self.step_size)\n        state.mom = new_state.mom\n        return new_state\n"),
    "c02_nonpalindromic": (["C02", "C06"], "src/mici/integrators.py",
        "        self.coefficients = coefficients + coefficients[-2::-1]\n",
        "        self.coefficients = coefficients + coefficients[-2::-1]\n        if len(self.coefficients) > 5:\n            self.coefficients[1], self.coefficients[3] = self.coefficients[3], self.coefficients[1]\n"),
    "c03_momentum_projection_scaled": (["C04"], "src/mici/systems.py",
        "        mom -= self.jacob_constr(state).T @ (\n            self.inv_gram(state) @ (self.jacob_constr(state) @ (self.metric.inv @ mom))\n        )\n        return mom\n",
        "        mom -= 1.01 * self.jacob_constr(state).T @ (\n            self.inv_gram(state) @ (self.jacob_constr(state) @ (self.metric.inv @ mom))\n        )\n        return mom\n"),
    "c04_final_projection_skipped": (["C04", "C02"], "src/mici/integrators.py",
        "    def _step_a(self, state: ChainState, time_step: float) -> None:\n        self.system.h1_flow(state, time_step)\n        self._project_onto_cotangent_space(state)\n\n    def _step_b(",
        "    def _step_a(self, state: ChainState, time_step: float) -> None:\n        self.system.h1_flow(state, time_step)\n        if self.n_inner_step < 3:\n            self._project_onto_cotangent_space(state)\n\n    def _step_b("),
    "c04_solver_returns_after_maxiters": (["C04"], "src/mici/solvers.py",
        "    msg = (\n        f\"Newton solver did not converge in {max_iters} iterations. \"\n        f\"Last |constr|={error:.1e}, |delta_pos|={norm(delta_pos)}.\"\n    )\n    raise ConvergenceError(msg)\n\n\ndef solve_projection_onto_manifold_newton_with_line_search(",
        "    if error < 1e6 * constraint_tol:\n        state.mom -= np.sign(time_step) * dh2_flow_mom_dmom @ mu\n        return state\n    msg = (\n        f\"Newton solver did not converge in {max_iters} iterations. \"\n        f\"Last |constr|={error:.1e}, |delta_pos|={norm(delta_pos)}.\"\n    )\n    raise ConvergenceError(msg)\n\n\ndef solve_projection_onto_manifold_newton_with_line_search("),
    "c05_scalar_riemannian_grad_factor": (["C05"], "src/mici/matrices.py",
        "        return -np.sum(vector**2) / self._scalar**2\n",
        "        return -np.sum(vector**2) / abs(self._scalar) ** 1.5 if self._scalar > 1.2 else -np.sum(vector**2) / self._scalar**2\n"),
    "c05_gram_grad_missing_metric": (["C05"], "src/mici/systems.py",
        "            self.inv_gram(state) @ self.jacob_constr(state) @ self.metric.inv,\n",
        "            self.inv_gram(state) @ self.jacob_constr(state),\n"),
    "c06_half_step_dropped": (["C06", "C03"], "src/mici/integrators.py",
        "        self._step_a_fwd(state, time_step / 2)\n        self._step_a_adj(state, time_step / 2)\n",
        "        self._step_a_fwd(state, time_step / 2)\n        self._step_a_adj(state, time_step / 2 if abs(time_step) > 0.05 else time_step / 2.2)\n"),
    "c07_sin_omega_factor": (["C07"], "src/mici/systems.py",
        "            cos_omega_dt * eigvec_trans_mom - (sin_omega_dt / omega) * eigvec_trans_pos\n",
        "            cos_omega_dt * eigvec_trans_mom - (sin_omega_dt * omega) * eigvec_trans_pos\n"),
    "c07_dh2_flow_dmom": (["C07", "C04"], "src/mici/systems.py",
        "                sin_omega_dt * omega,\n            ),\n            matrices.EigendecomposedSymmetricMatrix(self.metric.eigvec, cos_omega_dt),",
        "                sin_omega_dt / omega,\n            ),\n            matrices.EigendecomposedSymmetricMatrix(self.metric.eigvec, cos_omega_dt),"),
    "c08_sqrt_transposed": (["C08"], "src/mici/systems.py",
        "        return self.metric.sqrt @ rng.standard_normal(state.pos.shape)\n",
        "        return self.metric.sqrt.T @ rng.standard_normal(state.pos.shape)\n"),
    "c08_missing_projection": (["C08", "C04"], "src/mici/systems.py",
        "        mom = super().sample_momentum(state, rng)\n        return self.project_onto_cotangent_space(mom, state)\n",
        "        mom = super().sample_momentum(state, rng)\n        if self.dens_wrt_hausdorff:\n            return self.project_onto_cotangent_space(mom, state)\n        return mom\n"),
    "c08_correlated_coeff": (["C08"], "src/mici/transitions.py",
        "            state.mom *= (1.0 - self.mom_resample_coeff**2) ** 0.5\n",
        "            state.mom *= 1.0 - self.mom_resample_coeff**2\n"),
    "c09_wrong_dependency": (["C09"], "src/mici/systems.py",
        "    @cache_in_state(\"pos\")\n    def gram(self, state: ChainState) -> matrices.PositiveDefiniteMatrix:",
        "    @cache_in_state(\"mom\")\n    def gram(self, state: ChainState) -> matrices.PositiveDefiniteMatrix:"),
    "c18_cache_dropped_on_copy": (["C18"], "src/mici/states.py",
        "            _cache=self._cache.copy(),\n",
        "            _cache={},\n"),
    "c18_overbroad_dependency": (["C18"], "src/mici/systems.py",
        "    @cache_in_state_with_aux(\"pos\", \"neg_log_dens\")\n    def grad_neg_log_dens(self, state: ChainState) -> ArrayLike:",
        "    @cache_in_state_with_aux((\"pos\", \"mom\"), \"neg_log_dens\")\n    def grad_neg_log_dens(self, state: ChainState) -> ArrayLike:"),
    "c10_transposed_inverse": (["C10"], "src/mici/matrices.py",
        "            inv_lu_transposed=self._lu_transposed,\n        )\n\n\nclass InverseLUFactoredSquareMatrix(",
        "            inv_lu_transposed=bool(self._lu_transposed) and self.shape[0] < 3,\n        )\n\n\nclass InverseLUFactoredSquareMatrix("),
    "c10_woodbury_sign": (["C10"], "src/mici/matrices.py",
        "            self.capacitance_matrix.inv,\n            self.inner_symmetric_matrix.inv,\n            -self._sign,\n",
        "            self.capacitance_matrix.inv,\n            self.inner_symmetric_matrix.inv,\n            -1,\n"),
    "c11_diag_grad_sign": (["C11"], "src/mici/matrices.py",
        "        return -((self.inv @ vector) ** 2)\n",
        "        return -((self.inv @ vector) ** 2) * np.sign(self.diagonal)\n"),
    "c12_except_narrowed": (["C12"], "src/mici/solvers.py",
        "    except (ValueError, LinAlgError) as e:\n        # Make robust to errors in intermediate linear algebra ops\n        msg = f\"{type(e)} at iteration {i} of quasi-Newton solver ({e}).\"",
        "    except LinAlgError as e:\n        # Make robust to errors in intermediate linear algebra ops\n        msg = f\"{type(e)} at iteration {i} of quasi-Newton solver ({e}).\""),
    "c12_nan_check_removed": (["C12"], "src/mici/transitions.py",
        "            accept_prob = 0.0 if np.isnan(h_diff) else np.exp(min(0, h_diff))\n        else:\n            accept_prob = 0.0\n",
        "            accept_prob = np.exp(min(0, h_diff))\n        else:\n            accept_prob = 0.0\n"),
    "c13_stats_wrong_row": (["C13"], "src/mici/samplers.py",
        "                        _update_chain_stats(\n                            sample_index + sampling_index_offset,\n",
        "                        _update_chain_stats(\n                            sample_index + sampling_index_offset - (1 if sampling_index_offset > 4 else 0),\n"),
    "c13_offset_not_advanced": (["C13"], "src/mici/samplers.py",
        "                    if stage.trace_funcs is not None or stage.record_stats:\n                        sampling_index_offset += stage.n_iter\n",
        "                    if stage.trace_funcs is not None and stage.record_stats:\n                        sampling_index_offset += stage.n_iter if stage.adapters is None or len(chain_states) < 4 else 0\n"),
    "c14_not_resorted": (["C14", "C13"], "src/mici/samplers.py",
        "            indexed_chain_outputs.sort(key=lambda indexed_output: indexed_output[0])\n",
        "            pass\n"),
    "c14_equal_seeds": (["C14"], "src/mici/samplers.py",
        "        return [default_rng(bit_generator.jumped(i)) for i in range(n_chain)]\n",
        "        return [default_rng(bit_generator.jumped(i % 3)) for i in range(n_chain)]\n"),
    "c15_stage_loop_continues": (["C15"], "src/mici/samplers.py",
        "                    if isinstance(exception, KeyboardInterrupt):\n                        return MCMCSampleChainsOutputs(chain_states, traces, stats)\n                    if len(adapter_states) > 0:",
        "                    if isinstance(exception, KeyboardInterrupt) and stage.adapters is None:\n                        return MCMCSampleChainsOutputs(chain_states, traces, stats)\n                    if len(adapter_states) > 0 and not isinstance(exception, KeyboardInterrupt):"),
    "c16_adapters_in_main": (["C16"], "src/mici/stagers.py",
        "        # main non-adaptive stage\n        if n_main_iter > 0:\n            sampling_stages[\"Main non-adaptive\"] = ChainStage(\n                n_iter=n_main_iter,\n                adapters=None,\n                trace_funcs=trace_funcs,\n                record_stats=True,\n            )\n        return sampling_stages\n\n\nclass WindowedWarmUpStager(Stager):",
        "        # main non-adaptive stage\n        if n_main_iter > 0:\n            sampling_stages[\"Main non-adaptive\"] = ChainStage(\n                n_iter=n_main_iter,\n                adapters=None if n_warm_up_iter != 1 else adapters,\n                trace_funcs=trace_funcs,\n                record_stats=True,\n            )\n        return sampling_stages\n\n\nclass WindowedWarmUpStager(Stager):"),
    "c16_slow_total_uses_configured_final": (["C16"], "src/mici/stagers.py",
        "            n_slow_stage_iter = (\n                n_warm_up_iter - n_init_fast_stage_iter - n_final_fast_stage_iter\n            )\n",
        "            n_slow_stage_iter = max(\n                n_warm_up_iter - n_init_fast_stage_iter - self.n_final_fast_stage_iter, 0\n            ) if n_warm_up_iter > 40 else (\n                n_warm_up_iter - n_init_fast_stage_iter - n_final_fast_stage_iter\n            )\n"),
    "c17_decay_exponent": (["C17"], "src/mici/adapters.py",
        "        smoothing_weight = (1 / adapt_state[\"iter\"]) ** self.iter_decay_coeff\n",
        "        smoothing_weight = (1 / (adapt_state[\"iter\"] + (adapt_state[\"iter\"] > 40))) ** self.iter_decay_coeff\n"),
    "c17_chan_cross_term": (["C17"], "src/mici/adapters.py",
        "                    var_est += (\n                        mean_diff**2 * (adapt_state[\"iter\"] * n_iter_prev) / n_iter\n                    )\n",
        "                    var_est += (\n                        mean_diff**2 * (adapt_state[\"iter\"] * n_iter_prev) / (n_iter + (i > 2))\n                    )\n"),
    "c19_hash_ignores_param": (["C19"], "src/mici/matrices.py",
        "    def _check_equality(self, other: ScaledOrthogonalMatrix) -> bool:\n        return self._scalar == other._scalar and (  # noqa: SLF001",
        "    def _check_equality(self, other: ScaledOrthogonalMatrix) -> bool:\n        return abs(self._scalar) == abs(other._scalar) and (  # noqa: SLF001"),
    "c19_inplace_scalar_multiply": (["C19", "C10"], "src/mici/matrices.py",
        "    def _scalar_multiply(self, scalar: ScalarLike) -> DiagonalMatrix:\n        return DiagonalMatrix(self.diagonal * scalar)\n",
        "    def _scalar_multiply(self, scalar: ScalarLike) -> DiagonalMatrix:\n        diagonal = self.diagonal\n        diagonal.flags.writeable = True\n        diagonal *= scalar\n        return DiagonalMatrix(diagonal)\n"),
    "c20_naive_lse": (["C20"], "src/mici/utils.py",
        "    if val1 > val2:\n        return val1 + log1p_exp(val2 - val1)\n    return val2 + log1p_exp(val1 - val2)\n",
        "    if abs(val1) < 760 and abs(val2) < 760:\n        return log(exp(val1) + exp(val2))\n    if val1 > val2:\n        return val1 + log1p_exp(val2 - val1)\n    return val2 + log1p_exp(val1 - val2)\n"),
}


def main():
    OUT.mkdir(exist_ok=True)
    table = {}
    for name, (props, rel, old, new) in M.items():
        src = subprocess.run(["git", "-C", str(REPO), "show", f"HEAD:{rel}"], capture_output=True, text=True, check=True).stdout
        if src.count(old) != 1:
            print(f"!! {name}: old text occurs {src.count(old)} times")
            continue
        mut = src.replace(old, new)
        diff = "".join(difflib.unified_diff(src.splitlines(True), mut.splitlines(True), f"a/{rel}", f"b/{rel}"))
        (OUT / f"{name}.diff").write_text(diff)
        table[name] = props
    import json

    (OUT / "expected.json").write_text(json.dumps(table, indent=1))
    print(len(table), "mutants written")


if __name__ == "__main__":
    main()
