"""C15 - interrupting sampling returns a consistent prefix of the run."""

from __future__ import annotations

import json
import os
import pickle
import shutil
import subprocess
import sys
import tempfile
from pathlib import Path

import numpy as np

ID = "C15"
LEVEL = "fault_enumeration"
RULE = (
    "each case fixes one sampling configuration (sequential or 2-3 worker processes; single or multi-stage with "
    "step-size / variance adapters; in-memory or user-directory memmap storage; static and dynamic transitions) and "
    "first runs it uninterrupted while logging every in-iteration call of the density, gradient and trace functions "
    "(chain, iteration, function, call index) -- the set of possible interrupt points. The run is then repeated with a "
    "KeyboardInterrupt raised from one such call (all points in thorough up to a cap, stratified first / last / random "
    "in quick) and, in multi-process mode, additionally with a real SIGINT delivered to the whole process group at that "
    "logical point (in a child session under a watchdog). Oracle: the call returns; rows of iterations completed "
    "before the interrupt equal the uninterrupted run bitwise; rows not reached hold the fill values; the interrupted "
    "row may hold either; returned final states sit at the last completed iteration of their chain; no later stage "
    "started; .npy files re-read from a user directory equal the returned arrays. distinct_nontrivial = distinct "
    "(mode, transition, adapters, function interrupted, stage kind, position class of the interrupt point)."
)
ASSUMPTIONS = [
    "interrupt points outside an iteration (trace / adapter initialisation and finalisation) are outside the property and not injected",
    "a run that does not finish within its watchdog is inconclusive (reported with the faulthandler dump), not a violation",
]
REQUIRED = {"interrupts_injected": 60, "rows_judged": 1000}
BUDGET_S = {"quick": 300, "thorough": 2400}
MAX_PARALLEL = 6
SHARDS_PER_SLOT = 2


def shard_setup(obs) -> None:
    from mv import common

    common.setup_paths()


def gen_cases(tier: str, seed: int):
    n = {"quick": 36, "thorough": 150}[tier]
    rng = np.random.default_rng([seed, 15])
    for i in range(n):
        adapters, stager = [([], None), (["step"], None), (["step", "var"], [2, 1, 1, 2.0]), (["var"], [2, 0, 0, 2.0])][i % 4]
        mode = ["seq", "seq-userdir", "par", "par-signal", "par-userdir", "par-signal-parent", "seq-userdir"][i % 7]
        cfg = {"n_chain": int(rng.integers(2, 4)), "n_warm": int(rng.choice([3, 4, 6])) if adapters else int(rng.choice([0, 2, 3, 3])),
               "n_main": int(rng.choice([2, 3, 5])), "adapters": adapters, "stager": stager, "seed": int(rng.integers(0, 10**6)),
               "model_seed": int(rng.integers(0, 100)), "dim": int(rng.integers(1, 4)), "trace": [["pos"], ["pos", "scalars"], ["energy"]][i % 3],
               "trace_warm_up": bool(rng.integers(0, 2)), "transition": ["static", "multinomial", "slice"][i % 3], "init": "state",
               "n_process": 1 if mode.startswith("seq") else int(rng.choice([2, 3])), "force_memmap": "userdir" in mode}
        if mode in ("par", "par-userdir") and i % 2 == 0:
            cfg["n_chain"], cfg["n_process"] = int(rng.choice([3, 4, 5])), 2  # more chains than workers: some are still queued
        yield {"cfg": cfg, "mode": mode, "n_points": {"quick": 4, "thorough": 10}[tier], "seed": [seed, i]}


# ------------------------------------------------------------------------ child process
def child_main(argv) -> int:
    """Run one configuration in this (fresh, own-session) process and pickle what the oracle needs."""
    import faulthandler

    faulthandler.dump_traceback_later(20, exit=True)
    # Python installs its KeyboardInterrupt handler only when SIGINT is not ignored at start-up, and a check launched in
    # the background of a non-interactive shell inherits SIGINT ignored: make the run independent of that
    import signal

    signal.signal(signal.SIGINT, signal.default_int_handler)
    from mv import common

    common.setup_paths()
    from mv import samp

    cfg = json.loads(Path(argv[0]).read_text())
    res = samp.run(cfg, argv[2])
    out = res["out"]
    payload = {"exc": None if res["exc"] is None else (type(res["exc"]).__name__, str(res["exc"])), "recs": res["recs"],
               "flat": None if out is None else flatten(out, cfg), "finals": None if out is None else [(int(getattr(s, "tag", -1)), np.array(s.pos), None if s.mom is None else np.array(s.mom)) for s in out.final_states]}
    Path(argv[1]).write_bytes(pickle.dumps(payload))
    return 0


def flatten(out, cfg) -> dict:
    flat = {}
    stats = out.statistics if cfg.get("front_end", "hmc") == "hmc" else out.statistics.get("integration_transition", {})
    for key, arrs in (out.traces or {}).items():
        for c, a in enumerate(arrs):
            flat[("trace", key, c)] = np.array(a)
    for key, arrs in stats.items():
        for c, a in enumerate(arrs):
            flat[("stat", key, c)] = np.array(a)
    return flat


FLUSH_LOG: list = []


def run_inproc(cfg, workdir):
    import time

    from mv import c13, samp

    # observe memmap flushes (re-reading the files cannot: unflushed pages are visible through the page cache)
    orig_flush = np.memmap.flush

    def logged_flush(self):
        FLUSH_LOG.append((str(getattr(self, "filename", "")), time.monotonic_ns()))
        return orig_flush(self)

    del FLUSH_LOG[:]
    samp.CTX["interrupt_t"] = None
    np.memmap.flush = logged_flush
    try:
        res = c13.run_with_alarm(cfg, workdir, 120)
    finally:
        np.memmap.flush = orig_flush
    res["flush_log"] = list(FLUSH_LOG)
    res["interrupt_t"] = samp.CTX.get("interrupt_t")
    out = res["out"]
    return {"exc": None if res["exc"] is None else (type(res["exc"]).__name__, str(res["exc"])), "recs": res["recs"],
            "flat": None if out is None else flatten(out, cfg), "call_log": res["call_log"], "kw": res["kw"],
            "flush_log": res["flush_log"], "interrupt_t": res["interrupt_t"], "init_pos": res["init_pos"],
            "finals": None if out is None else [(int(getattr(s, "tag", -1)), np.array(s.pos), None if s.mom is None else np.array(s.mom)) for s in out.final_states],
            "types": dict(res["sampler_transitions"]["integration_transition"].statistic_types)}


def run_child(cfg, workdir, timeout=150):
    from mv.common import VERIF

    cf = Path(workdir) / f"cfg-{np.random.default_rng().integers(1 << 40)}.json"
    of = cf.with_suffix(".pkl")
    cf.write_text(json.dumps(cfg))
    env = dict(os.environ, PYTHONPATH=str(VERIF))
    try:
        p = subprocess.run([sys.executable, "-X", "faulthandler", "-m", "mv.c15", "--child", str(cf), str(of), str(workdir)],
                           cwd=str(VERIF), env=env, capture_output=True, text=True, timeout=timeout, start_new_session=True)
    except subprocess.TimeoutExpired as e:
        err = e.stderr or b""
        err = err.decode(errors="replace") if isinstance(err, bytes) else err
        return None, f"timeout; stderr: {err[-8000:]}"
    if not of.exists():
        return None, f"rc={p.returncode}; stderr: {p.stderr[-8000:]}"
    return pickle.loads(of.read_bytes()), None  # noqa: S301


# ------------------------------------------------------------------------------ oracle
def fill_of(kind, key, arr, types):
    if kind == "stat":
        return types[key][1]
    return np.nan if arr.dtype.kind == "f" else 0


def is_fill(x, fill):
    x = np.asarray(x)
    if isinstance(fill, float) and np.isnan(fill):
        return bool(np.all(np.isnan(x)))
    return bool(np.all(x == fill))


def judge(obs, cfg, mode, point, ref, got, stages, types, udir, all_chains=False):  # noqa: C901, PLR0912
    tag, it, fn, idx = point
    where = f"interrupt at {fn} call {idx} of chain {tag} iteration {it} ({mode}); cfg={cfg}"
    if got["exc"] is not None:
        obs.violation(f"exception-escaped:{got['exc'][0]}:{mode}", f"sample_chains raised {got['exc']} instead of returning; {where}")
        return
    if got["flat"] is None:
        obs.violation(f"no-output:{mode}", f"no outputs returned; {where}")
        return
    # recorded rows: global iteration -> row
    rows = {}
    g = 0
    r = 0
    bounds = []
    for _k, st in stages:
        if st.trace_funcs is not None or st.record_stats:
            for j in range(st.n_iter):
                rows[g + j] = r + j
            r += st.n_iter
        g += st.n_iter
        bounds.append(g)
    stage_end = next(b for b in bounds if it < b)
    done = {(x["tag"], x["iter"]) for x in got["recs"] if x["kind"] == "end"}
    started = {(x["tag"], x["iter"]) for x in got["recs"] if x["kind"] == "start"}
    signal_mode = mode in ("par-signal", "par-signal-parent")
    if any(i >= stage_end for (_t, i) in started):
        total_iters = bounds[-1] if bounds else 0
        if mode == "par-signal-parent" and stage_end < total_iters and len(done) == total_iters * cfg["n_chain"]:
            # the signal was delivered to the parent during a stage that is not the last one, and the run nevertheless
            # performed every iteration of every stage: the interrupt did not take effect late, it was lost
            obs.violation(f"interrupt-lost:{mode}",
                          f"SIGINT was delivered to the parent process during a non-final stage but all {total_iters} iterations of all "
                          f"stages were run for every chain; {where}")
            return
        if signal_mode:
            # a real signal is handled when the receiving process next runs Python code: on a loaded machine the parent can
            # be descheduled long enough for the workers to finish a short stage first. When the interrupt took effect is
            # not observable from outside, so this is not a verdict (the injected modes decide this clause exactly).
            obs.inconc("signal-took-effect-after-the-stage-ended")
            return
        obs.violation(f"later-stage-started:{mode}", f"iterations of a later stage ran after the interrupt; {where}")
    if fn != "trace" and (tag, it) in done and mode != "par-signal-parent":
        if signal_mode:
            obs.inconc("signal-took-effect-after-the-iteration-ended")
            return
        obs.violation(f"interrupt-not-delivered:{mode}", f"the interrupted iteration completed; {where}")
    n_chain = cfg["n_chain"]
    lenient = {(tag, it)} | (started - done)
    if all_chains:  # every chain reaching the point is interrupted there, possibly between two of its trace functions
        lenient |= {(c, it) for c in range(cfg["n_chain"])}
    if mode == "par-signal-parent":
        lenient = set()  # only the parent is interrupted: the workers finish the stage, every started iteration completes
    if mode == "par-signal":  # every worker is hit at an arbitrary point, possibly inside a trace function
        for c in range(n_chain):
            mine = [i for (t, i) in done if t == c]
            if mine:
                lenient.add((c, max(mine)))
    for (kind, key, c), arr in got["flat"].items():
        refarr = ref["flat"][(kind, key, c)]
        if arr.shape != refarr.shape:
            obs.violation(f"array-shape:{mode}", f"{kind} {key} chain {c} has shape {arr.shape}, uninterrupted {refarr.shape}; {where}")
            continue
        fill = fill_of(kind, key, arr, types)
        for gi, row in rows.items():
            obs.count("rows_judged")
            val, want = arr[row], refarr[row]
            same = bool(np.array_equal(val, want, equal_nan=True))
            if (c, gi) in lenient:
                if not (same or is_fill(val, fill)):
                    obs.violation(f"interrupted-row-garbage:{mode}", f"{kind} {key} chain {c} row {row} = {val!r}: neither the uninterrupted value {want!r} nor the fill value; {where}")
            elif (c, gi) in done:
                if not same:
                    obs.violation(f"completed-row-differs:{kind}:{mode}",
                                  f"{kind} {key!r} chain {c} row {row} (iteration {gi}, completed before the interrupt) = {val!r}, uninterrupted run has {want!r}; {where}")
            elif not is_fill(val, fill):
                obs.violation(f"unreached-row-not-fill:{kind}:{mode}",
                              f"{kind} {key!r} chain {c} row {row} (iteration {gi} never ran) = {val!r}, expected fill {fill!r}; {where}")
    # final states
    last_pos = {}
    for x in sorted((x for x in got["recs"] if x["kind"] == "end"), key=lambda x: x["iter"]):
        last_pos[x["tag"]] = x["pos"]
    obs.count("final_states_checked", len(got["finals"]))
    if mode in ("seq", "seq-userdir", "par", "par-userdir", "par-signal-parent"):
        stage_start = ([0] + bounds)[bounds.index(stage_end)]
        ran = {t for (t, i) in started if stage_start <= i < stage_end}
        returned = {ft for ft, _p, _m in got["finals"]}
        if ran - returned:
            obs.violation(f"final-state-missing:{mode}", f"chains {sorted(ran - returned)} ran iterations in the interrupted stage but no final "
                                                         f"state was returned for them (returned: {sorted(returned)}); {where}")
    if len(got["finals"]) > n_chain:
        obs.violation(f"final-states-count:{mode}", f"{len(got['finals'])} final states for {n_chain} chains; {where}")
    for ftag, pos, mom in got["finals"]:
        if not np.all(np.isfinite(pos)) or (mom is not None and not np.all(np.isfinite(mom))):
            obs.violation(f"final-state-non-finite:{mode}", f"final state of chain {ftag} is not finite; {where}")
        if mode == "par-signal":
            # every worker is hit at an arbitrary point, possibly inside the logging proxy itself: accept any logged position
            mine = [x["pos"] for x in got["recs"] if x["kind"] == "end" and x["tag"] == ftag]
            allowed = mine[-2:] + ([ref["init_pos"][ftag]] if ftag in ref.get("init_pos", {}) else [])
            if allowed and not any(np.array_equal(pos, q) for q in allowed):
                obs.violation(f"final-state-position:{mode}", f"final state of chain {ftag} is not at one of its last two logged positions; {where}")
            continue
        if ftag in last_pos and not np.array_equal(pos, last_pos[ftag]):
            obs.violation(f"final-state-position:{mode}", f"final state of chain {ftag} is not at the position of its last completed iteration; {where}")
        if ftag not in last_pos and ftag >= 0:
            init = ref["init_pos"].get(ftag)
            if init is not None and not np.array_equal(pos, init):
                obs.violation(f"final-state-position:{mode}", f"chain {ftag} completed no iteration but its final state left the initial position; {where}")
    fcache = {}
    if udir is not None and got.get("interrupt_t") and mode.startswith("seq") and it in rows:
        # the interrupted chain's memory maps must be flushed after the interrupt (files identified by content: the naming
        # scheme is not documented; an array held by several identical files needs one of them flushed)
        from mv import samp

        t0 = got["interrupt_t"]
        flushed = {Path(f).name for f, t in got.get("flush_log", []) if t > t0}
        mine = [(kind, key, arr) for (kind, key, c), arr in got["flat"].items() if c == tag]
        obs.count("flush_checks", len(mine))
        missing = []
        for kind, key, arr in mine:
            names = samp.files_holding(udir, arr, fcache)
            if names and not (set(names) & flushed):
                missing.append(f"{kind} {key!r} ({names[0]})")
        if missing:
            obs.violation(f"memmap-not-flushed-after-interrupt:{mode}",
                          f"{len(missing)} of {len(mine)} memory maps of the interrupted chain were not flushed after the interrupt "
                          f"(e.g. {missing[0]}); {where}")
    if udir is not None:
        from mv import samp

        files = sorted(Path(udir).glob("*.npy"))
        obs.count("npy_files_reread", len(files))
        for (kind, key, c), arr in got["flat"].items():
            if not samp.files_holding(udir, arr, fcache):
                obs.violation(f"memmap-not-flushed:{mode}", f"no file in the user directory holds the returned {kind} {key!r} of chain {c} "
                                                            f"({len(files)} files present); {where}")
                break


def run_case(case, obs) -> None:  # noqa: C901
    from mv import c13, samp

    cfg = dict(case["cfg"])
    mode = case["mode"]
    rng = np.random.default_rng([abs(int(s)) for s in case["seed"]])
    workdir = tempfile.mkdtemp(prefix="mv-c15-")
    try:
        refcfg = dict(cfg, n_process=1, count_calls=True, force_memmap=False)
        try:
            ref = run_inproc(refcfg, workdir)
        except c13.RunTimeout:
            obs.inconc("reference-run-timeout")
            return
        if ref["exc"] is not None:
            if ref["exc"][0] == "AdaptationError":
                obs.count("adaptation_error_reference")
                return
            obs.violation("reference-run-failed", f"uninterrupted run raised {ref['exc']}; cfg={cfg}")
            return
        stages = list(samp.stage_plan(cfg, ref["kw"]).items())
        points = sorted(set(ref["call_log"]))
        obs.count("interrupt_points_available", len(points))
        if not points:
            obs.inconc("no-interrupt-points")
            return
        by_fn = {}
        for p in points:
            by_fn.setdefault(p[2], []).append(p)
        chosen = [points[0], points[-1]]
        for fn, lst in by_fn.items():
            chosen.append(lst[int(rng.integers(0, len(lst)))])
        while len(chosen) < case["n_points"] + 2:
            chosen.append(points[int(rng.integers(0, len(points)))])
        chosen = list(dict.fromkeys(chosen))[: case["n_points"]]
        g = 0
        stage_kind = {}
        for k, st in stages:
            for j in range(st.n_iter):
                stage_kind[g + j] = "main" if st.adapters is None else ("slow" if "slow" in k.lower() else "warm")
            g += st.n_iter
        for point in chosen:
            tag, it, fn, idx = point
            icfg = dict(cfg, interrupt={"fn": fn, "tag": tag, "iter": it, "call": idx})
            if mode in ("par", "par-userdir") and rng.integers(0, 2):
                # the same point in EVERY chain that reaches it: all workers are interrupted, chains still queued never start
                icfg["interrupt"]["all_chains"] = True
                obs.count("all_chain_interrupts")
            udir = None
            if "userdir" in mode:
                udir = str(Path(workdir) / f"user-{np.random.default_rng().integers(1 << 40)}")
                Path(udir).mkdir()
                icfg["memmap_dir"] = udir
                icfg["force_memmap"] = True
            if mode in ("par-signal", "par-signal-parent"):
                icfg["interrupt"]["signal"] = True if mode == "par-signal" else "parent"
                got, err = run_child(icfg, workdir, timeout=25)
                obs.count("real_sigint_runs")
                if got is None and mode == "par-signal-parent":
                    stuck = "_sample_chains_parallel" in err and "Timeout (" in err
                    if stuck:
                        obs.violation("parent-only-sigint:run-did-not-return", f"SIGINT to the parent process only (sent at {fn} call {idx} of chain "
                                      f"{tag} iteration {it}): sample_chains did not return within the 20 s watchdog; {err[-600:]}")
                    else:
                        obs.inconc("child-run-hung-or-died")
                        obs.sample({"child_failure_head": err[:1500], "child_failure_tail": err[-800:], "cfg": icfg})
                    continue
                if got is None:
                    stuck = "_sample_chains_parallel" in err and "multiprocessing/pool.py" in err and " in get" in err
                    if stuck and "KeyboardInterrupt" in err:
                        obs.violation("sigint-kills-worker-outside-chain-loop:parent-hangs",
                                      f"real SIGINT to the process group (sent at {fn} call {idx} of chain {tag} iteration {it}): a worker "
                                      f"process received KeyboardInterrupt outside the try block of its chain loop, died, and "
                                      f"sample_chains never returned (parent blocked in results.get() when the 20 s faulthandler watchdog fired)")
                    else:
                        obs.inconc("child-run-hung-or-died")
                        obs.sample({"child_failure": err[-1500:], "cfg": icfg})
                    continue
            else:
                try:
                    got = run_inproc(icfg, workdir)
                except c13.RunTimeout:
                    obs.inconc("interrupted-run-timeout")
                    continue
            obs.count("interrupts_injected")
            obs.count(f"injected.{mode}.{fn}")
            judge(obs, cfg, mode, point, ref, got, stages, ref["types"], udir, all_chains=bool(icfg["interrupt"].get("all_chains")))
            total = sum(st.n_iter for _k, st in stages)
            pos_class = "first" if it == 0 else ("last" if it == total - 1 else "middle")
            obs.token(mode, cfg["transition"], tuple(cfg["adapters"]), fn, stage_kind.get(it), pos_class, tag == cfg["n_chain"] - 1)
        obs.sample({"cfg": cfg, "mode": mode, "points": chosen})
    finally:
        shutil.rmtree(workdir, ignore_errors=True)


if __name__ == "__main__":
    if len(sys.argv) > 1 and sys.argv[1] == "--child":
        sys.exit(child_main(sys.argv[2:]))
