"""C05 - Hamiltonian values and derivative methods of every system are consistent."""

from __future__ import annotations

import numpy as np

from mv import zoo

ID = "C05"
LEVEL = "exploration"
RULE = (
    "each case builds one system from the zoo (10 system classes x constant/position-dependent metric types x every "
    "accepted return convention of the user derivative functions, dimension 1-6, non-linear non-separable target, "
    "curved and multiple constraints) and a random state, then compares h/h1/h2 with the documented formulas evaluated "
    "by independent dense code and every derivative method with 4th-order finite differences of those formulas; "
    "sum rules h=h1+h2, dh_dpos=dh1_dpos+dh2_dpos, dh_dmom=dh2_dmom are checked on fresh states. "
    "distinct_nontrivial = distinct (system class, metric kind, constraint kind, convention flags relevant to the class)."
)
ASSUMPTIONS = [
    "zoo derivatives are hand written and self-tested by finite differences at shard start (failure = broken run)",
    "finite differences (4th order, h=1e-4) of the independent dense Hamiltonian decide derivatives to 2e-6 relative",
]
REQUIRED = {"methods_compared": 500, "reused_state_histories": 100, "degenerate_hessian_positions": 10}
BUDGET_S = {"quick": 90, "thorough": 900}
TOL_V, TOL_D = 1e-9, 2e-6


def shard_setup(obs) -> None:
    from mv import common

    common.setup_paths()
    probs = zoo.self_test(0)
    if probs:
        err = RuntimeError(f"zoo self-test failed: {probs}")
        err._mv_harness = True  # noqa: SLF001
        raise err


def gen_cases(tier: str, seed: int):
    n = {"quick": 400, "thorough": 40000}[tier]
    rng = np.random.default_rng([seed, 5])
    # directed: every system class with every constant metric at least once
    for k in zoo.SYSTEMS:
        for mk in (zoo.CONST_METRICS if k in zoo.TRACTABLE else ("-",)):
            spec = zoo.random_sys_spec(rng, kinds=(k,), dim_range=(2, 4))
            if k in zoo.TRACTABLE:
                spec["metric"] = mk
            yield {"spec": spec, "seed": [seed, int(rng.integers(0, 2**31))]}
    # directed: raw array metrics at extreme overall scales
    for k in zoo.TRACTABLE:
        for mk in ("dense_array", "diag_array"):
            for sc in (1e-8, 1e-12, 1e-4, 1e6):
                spec = zoo.random_sys_spec(rng, kinds=(k,), dim_range=(2, 4))
                spec["metric"], spec["metric_scale"] = mk, sc
                yield {"spec": spec, "seed": [seed, int(rng.integers(0, 2**31))]}
    # directed: SoftAbs systems at positions where the Hessian has exactly / nearly repeated eigenvalues (eigenvalue
    # crossings: third derivatives do not vanish), whose eigenvectors are not axis aligned
    for k in range({"quick": 24, "thorough": 600}[tier]):
        spec = zoo.random_sys_spec(rng, kinds=("riem_softabs",), dim_range=(2, 4))
        spec["linear"] = "degenerate"
        yield {"spec": spec, "seed": [seed, int(rng.integers(0, 2**31))], "rel_gap": [0.0, 0.0, 1e-12, 1e-8][k % 4]}
    for _ in range(n):
        yield {"spec": zoo.random_sys_spec(rng), "seed": [seed, int(rng.integers(0, 2**31))]}


def relerr(a, b):
    a, b = np.asarray(a, dtype=float), np.asarray(b, dtype=float)
    if a.shape != b.shape:
        return np.inf
    return float(np.max(np.abs(a - b), initial=0.0) / max(1.0, float(np.max(np.abs(b), initial=0.0))))


def conv_key(spec):
    c = spec.get("conv", {})
    k = spec["sys"]
    keys = ["grad"]
    if k in zoo.CONSTRAINED:
        keys += ["jac"] + (["mhp"] if k != "constrained" else [])
    if k == "riem_softabs":
        keys += ["hess", "mtp"]
    elif k in zoo.RIEMANNIAN:
        keys += ["vjp"]
    return {x: c.get(x, 0) for x in keys}


def run_case(case, obs) -> None:  # noqa: C901, PLR0912, PLR0915
    spec = case["spec"]
    rng = np.random.default_rng([abs(int(s)) for s in case["seed"]])
    m = zoo.Model(spec)
    s = m.system
    q, p = m.random_point(rng, scale=float(rng.choice([0.3, 1.0, 1.5])))
    cname = type(s).__name__
    mk = spec.get("metric", spec.get("generic", "-"))
    tagbase = f"{cname}"
    if spec.get("linear") == "degenerate":
        q = m.target.degenerate_point(rng, case.get("rel_gap", 0.0))
        lam = np.linalg.eigvalsh(m.target.hess(q))
        obs.count("degenerate_hessian_positions")
        obs.maxi("min_eigengap_at_degenerate_positions", -float(np.min(np.diff(lam))), None)
        mk = f"degenerate-hessian:gap={case.get('rel_gap', 0.0):g}"
        tagbase = f"{cname}:repeated-hessian-eigenvalues"

    def fresh():
        return m.state(q, p)

    # order of first use of the system object: its flows / momentum draw may run before any value or derivative method
    # (they use other lazily computed representations of the metric than the derivative methods do)
    first_use = "values-first"
    if spec["sys"] in zoo.TRACTABLE and rng.integers(0, 2):
        first_use = "flows-first"
        scratch = m.state(q, p)
        s.h2_flow(scratch, float(rng.uniform(0.05, 0.5)))
        if hasattr(s, "dh2_flow_dmom"):
            s.dh2_flow_dmom(m.state(q, p), 0.1)
        if rng.integers(0, 2):
            s.sample_momentum(m.state(q, p), np.random.default_rng(1))
    obs.count(f"first_use.{first_use}")

    note = [""]

    def judge(name, got, ref, tol):
        obs.count("methods_compared")
        obs.count(f"cmp.{name}")
        e = relerr(got, ref)
        obs.maxi(f"relerr.{name}", e, {"sys": spec["sys"], "metric": mk})
        if not np.all(np.isfinite(np.asarray(got, dtype=float))):
            obs.violation(f"{name}:non-finite:{tagbase}", f"{cname}.{name} returned non-finite value; spec={spec}")
        elif e > tol:
            obs.violation(f"{name}:mismatch:{tagbase}",
                          f"{cname}.{name} differs from the independent reference by {e:.3e} (rel){note[0]}; system first used for: {first_use}; metric={mk} spec={spec}")

    # values
    judge("h1", s.h1(fresh()), m.ref_h1(q), TOL_V)
    judge("h2", s.h2(fresh()), m.ref_h2(q, p), TOL_V)
    judge("h", s.h(fresh()), m.ref_h(q, p), TOL_V)
    # derivatives vs finite differences of the reference Hamiltonian
    hq = 1e-4
    judge("dh1_dpos", s.dh1_dpos(fresh()), zoo.fd_grad(m.ref_h1, q, hq), TOL_D)
    judge("dh2_dpos", s.dh2_dpos(fresh()), zoo.fd_grad(lambda x: m.ref_h2(x, p), q, hq), TOL_D)
    judge("dh2_dmom", s.dh2_dmom(fresh()), zoo.fd_grad(lambda x: m.ref_h2(q, x), p, hq), TOL_D)
    judge("dh_dpos", s.dh_dpos(fresh()), zoo.fd_grad(lambda x: m.ref_h(x, p), q, hq), TOL_D)
    judge("dh_dmom", s.dh_dmom(fresh()), zoo.fd_grad(lambda x: m.ref_h(q, x), p, hq), TOL_D)
    # sum rules on one state with whatever cache order results
    st = fresh()
    judge("sum:h=h1+h2", s.h(st), s.h1(fresh()) + s.h2(fresh()), 1e-12)
    judge("sum:dh_dpos", s.dh_dpos(st), s.dh1_dpos(fresh()) + s.dh2_dpos(fresh()), 1e-12)
    judge("sum:dh_dmom", s.dh_dmom(st), s.dh2_dmom(fresh()), 1e-12)
    # call histories on ONE state object (and a copy of it): every method must keep returning the true value whatever was
    # evaluated - and cached in the state - before it (the integrators evaluate the same derivative repeatedly at one position)
    refs = {
        "h1": (lambda st: s.h1(st), m.ref_h1(q), TOL_V),
        "h2": (lambda st: s.h2(st), m.ref_h2(q, p), TOL_V),
        "h": (lambda st: s.h(st), m.ref_h(q, p), TOL_V),
        "dh1_dpos": (lambda st: s.dh1_dpos(st), zoo.fd_grad(m.ref_h1, q, hq), TOL_D),
        "dh2_dpos": (lambda st: s.dh2_dpos(st), zoo.fd_grad(lambda x: m.ref_h2(x, p), q, hq), TOL_D),
        "dh2_dmom": (lambda st: s.dh2_dmom(st), zoo.fd_grad(lambda x: m.ref_h2(q, x), p, hq), TOL_D),
        "dh_dpos": (lambda st: s.dh_dpos(st), zoo.fd_grad(lambda x: m.ref_h(x, p), q, hq), TOL_D),
        "dh_dmom": (lambda st: s.dh_dmom(st), zoo.fd_grad(lambda x: m.ref_h(q, x), p, hq), TOL_D),
        "grad_neg_log_dens": (lambda st: s.grad_neg_log_dens(st), m.target.grad(q), TOL_V),
        "neg_log_dens": (lambda st: s.neg_log_dens(st), m.target.f(q), TOL_V),
    }
    names = list(refs)
    # two more points: the state's variables are re-assigned between calls (position only, momentum only, or both)
    qb, pb = m.random_point(rng, scale=0.7)
    points = {"q": [q, qb], "p": [p, pb]}
    memo = {}

    def ref_at(nm, qi, pi):
        if (nm, qi, pi) not in memo:
            qq, pp = points["q"][qi], points["p"][pi]
            memo[nm, qi, pi] = {
                "h1": lambda: m.ref_h1(qq), "h2": lambda: m.ref_h2(qq, pp), "h": lambda: m.ref_h(qq, pp),
                "dh1_dpos": lambda: zoo.fd_grad(m.ref_h1, qq, hq),
                "dh2_dpos": lambda: zoo.fd_grad(lambda x: m.ref_h2(x, pp), qq, hq),
                "dh2_dmom": lambda: zoo.fd_grad(lambda x: m.ref_h2(qq, x), pp, hq),
                "dh_dpos": lambda: zoo.fd_grad(lambda x: m.ref_h(x, pp), qq, hq),
                "dh_dmom": lambda: zoo.fd_grad(lambda x: m.ref_h(qq, x), pp, hq),
                "grad_neg_log_dens": lambda: m.target.grad(qq), "neg_log_dens": lambda: m.target.f(qq),
            }[nm]()
        return memo[nm, qi, pi]

    st = fresh()
    qi = pi = 0
    seq = [names[i] for i in rng.integers(0, len(names), 14)]
    seq[int(rng.integers(1, 14))] = seq[0]  # at least one repeat of the same method
    base_tag, tagbase = tagbase, f"{cname}:on-reused-state"
    done = []
    for k, nm in enumerate(seq):
        tol = refs[nm][2]
        if k == 7:
            st = st.copy()
            done.append("copy")
        ev = int(rng.integers(0, 6)) if k else 5
        if ev == 0:
            qi = 1 - qi
            st.pos = points["q"][qi].copy()
            done.append(f"pos=q{qi}")
        elif ev == 1:
            pi = 1 - pi
            st.mom = points["p"][pi].copy()
            done.append(f"mom=p{pi}")
        elif ev == 2:
            qi, pi = 1 - qi, 1 - pi
            st.pos, st.mom = points["q"][qi].copy(), points["p"][pi].copy()
            done.append(f"pos=q{qi},mom=p{pi}")
        done.append(nm)
        note[0] = f" after history {done} on one state object"
        judge(nm, refs[nm][0](st), ref_at(nm, qi, pi), tol)
    obs.count("reused_state_histories")
    tagbase = base_tag
    note[0] = ""
    # class specific quantities
    judge("neg_log_dens", s.neg_log_dens(fresh()), m.target.f(q), TOL_V)
    judge("grad_neg_log_dens", s.grad_neg_log_dens(fresh()), m.target.grad(q), TOL_V)
    if m.constrained:
        cn = m.constraint
        judge("constr", s.constr(fresh()), cn.c(q), TOL_V)
        judge("jacob_constr", s.jacob_constr(fresh()), cn.jac(q), TOL_V)
        j = cn.jac(q)
        gram = j @ np.linalg.solve(m.metric_dense, j.T)
        judge("gram", np.asarray(s.gram(fresh()).array), gram, 1e-8)
        judge("inv_gram", np.asarray(s.inv_gram(fresh()).array), np.linalg.inv(gram), 1e-7)
        judge("log_det_sqrt_gram", s.log_det_sqrt_gram(fresh()), 0.5 * np.linalg.slogdet(gram)[1], 1e-8)
        if spec["sys"] != "constrained":
            def ldsg(x):
                jx = cn.jac(x)
                return 0.5 * np.linalg.slogdet(jx @ np.linalg.solve(m.metric_dense, jx.T))[1]

            judge("grad_log_det_sqrt_gram", s.grad_log_det_sqrt_gram(fresh()), zoo.fd_grad(ldsg, q, hq), TOL_D)
        pr = m.ref_projector(q)
        raw = rng.standard_normal(m.dim)
        judge("project_onto_cotangent_space", s.project_onto_cotangent_space(raw.copy(), fresh()), pr @ raw, 1e-8)
    if m.riemannian:
        judge("metric", np.asarray(s.metric(fresh()).array), m.ref_metric(q), 1e-8)
    # a live system's metric is reassigned by the metric adapters: values and derivatives must follow the new metric
    if spec["sys"] in zoo.TRACTABLE:
        new_arg, new_dense = zoo.const_metric(str(rng.choice(["diag", "dense", "scaled", "chol_lower", "eig", "lowrank_plus"])), m.dim, rng)
        s.metric = new_arg
        m.metric_dense = new_dense
        q, p = m.random_point(rng, scale=0.8)  # momentum on the scale of the new metric (and cotangent for it)
        tagbase = f"{cname}:after-metric-reassignment"
        judge("h2", s.h2(fresh()), m.ref_h2(q, p), TOL_V)
        judge("h", s.h(fresh()), m.ref_h(q, p), TOL_V)
        judge("dh2_dmom", s.dh2_dmom(fresh()), zoo.fd_grad(lambda x: m.ref_h2(q, x), p, hq), TOL_D)
        judge("dh_dpos", s.dh_dpos(fresh()), zoo.fd_grad(lambda x: m.ref_h(x, p), q, hq), TOL_D)
        if m.constrained:
            judge("h1", s.h1(fresh()), m.ref_h1(q), TOL_V)
            judge("dh1_dpos", s.dh1_dpos(fresh()), zoo.fd_grad(m.ref_h1, q, hq), TOL_D)
    obs.token(spec["sys"], mk, spec.get("constr", "-"), conv_key(spec))
    obs.sample({"sys": spec["sys"], "metric": mk, "constr": spec.get("constr"), "dim": spec["dim"], "conv": conv_key(spec)})
