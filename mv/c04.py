"""C04 - constrained dynamics never leave the constraint manifold or its cotangent space.

Monitors are icontract post-conditions attached (from the harness) to the real functions:
ConstrainedLeapfrogIntegrator.step, sample_momentum, project_onto_cotangent_space and the three
projection solvers.  They stay attached while standalone steps *and* full constrained HMC chains run.
Conditions record into a monitor and return True (they never abort what they observe).
"""

from __future__ import annotations

import numpy as np
import scipy.linalg as sla

from mv import intgen, zoo

ID = "C04"
LEVEL = "exploration"
RULE = (
    "cases: (steps) constrained system (hyperplane / two hyperplanes / sphere / quadric / two quadrics; identity, "
    "diagonal, dense, Cholesky, low-rank, block ambient metrics; Hausdorff and Gram-determinant densities with a true "
    "matrix-Hessian-product; Gaussian-split variant) x projection solver x inner steps 1-4 x step size 0.003-2.5 of the "
    "local period scale (large ones force the failure path), trajectories of 1-10 steps; (chain) full StaticMetropolis / "
    "DynamicMultinomial / DynamicSlice HMC chains of a few iterations. Contracts evaluated on every call of the "
    "attached functions; distinct_nontrivial = distinct (kind, system class, constraint, metric, solver, inner steps, "
    "step-size class)."
)
ASSUMPTIONS = [
    "constraint residual bound = the solver's constraint_tol (exact: nothing moves the position after the last solver "
    "return); cotangent residual |J M^-1 p| <= 1e-8*(1+|p|); Lagrange-form least-squares residual <= 1e-8*scale",
    "icontract from the offline wheelhouse; if unavailable the same predicates are attached with plain wrappers",
]
REQUIRED = {"moved_state_probes": 500, "contract.step": 300, "contract.solver_return": 500, "contract.project": 500, "contract.sample_momentum": 20,
            "chains_run": 5}
BUDGET_S = {"quick": 150, "thorough": 1500}

MON = {"obs": None, "model": None, "ctx": None, "tols": {}}
_ATTACHED = {"done": False, "icontract": False}


def _viol(key, msg):
    MON["obs"].violation(key, f"{msg}; ctx={MON['ctx']}")


def _residuals(model, pos, mom):
    cn = model.constraint
    c = float(np.max(np.abs(cn.c(pos))))
    j = cn.jac(pos)
    cot = float(np.max(np.abs(j @ np.linalg.solve(model.metric_dense, mom))))
    return c, cot


# ----- condition functions (argument names match the decorated functions) ------------
def step_post(self, state, result):  # noqa: ARG001
    model = MON["model"]
    if model is None or not model.constrained:
        return True
    obs = MON["obs"]
    obs.count("contract.step")
    pos, mom = np.asarray(result.pos, dtype=float), np.asarray(result.mom, dtype=float)
    if not (np.all(np.isfinite(pos)) and np.all(np.isfinite(mom))):
        _viol("step:non-finite", "constrained step returned a non-finite state")
        return True
    c, cot = _residuals(model, pos, mom)
    ctol = self.projection_solver_kwargs.get("constraint_tol", 1e-9)
    obs.maxi("step.constraint_residual_over_tol", c / ctol)
    obs.maxi("step.cotangent_residual", cot / (1 + float(np.max(np.abs(mom)))))
    if not c < ctol:
        _viol("step:off-manifold", f"after a successful constrained step |c(q)| = {c:.3e} >= constraint_tol {ctol:.1e}")
    if cot > 1e-8 * (1 + float(np.max(np.abs(mom)))):
        _viol("step:momentum-not-cotangent", f"after a successful constrained step |J M^-1 p| = {cot:.3e}")
    return True


def project_post(self, mom, state, result):  # noqa: ARG001
    model = MON["model"]
    if model is None:
        return True
    obs = MON["obs"]
    obs.count("contract.project")
    res = np.asarray(result, dtype=float)
    if not np.all(np.isfinite(res)):
        return True  # non-finite inputs are the business of C12
    pos = np.asarray(state.pos, dtype=float)
    j = model.constraint.jac(pos)
    cot = float(np.max(np.abs(j @ np.linalg.solve(model.metric_dense, res))))
    scale = 1 + float(np.max(np.abs(res)))
    obs.maxi("project.cotangent_residual", cot / scale)
    if cot > 1e-8 * scale:
        _viol("project:not-cotangent", f"project_onto_cotangent_space result has |J M^-1 p| = {cot:.3e}")
    again = MON["orig_project"](self, res.copy(), state)
    idem = float(np.max(np.abs(np.asarray(again) - res)))
    obs.maxi("project.idempotence_error", idem / scale)
    if idem > 1e-9 * scale:
        _viol("project:not-idempotent", f"projecting twice moves the momentum by {idem:.3e}")
    return True


def sample_momentum_post(self, state, rng, result):  # noqa: ARG001
    model = MON["model"]
    if model is None or not model.constrained:
        return True
    obs = MON["obs"]
    obs.count("contract.sample_momentum")
    res = np.asarray(result, dtype=float)
    j = model.constraint.jac(np.asarray(state.pos, dtype=float))
    cot = float(np.max(np.abs(j @ np.linalg.solve(model.metric_dense, res))))
    if cot > 1e-8 * (1 + float(np.max(np.abs(res)))):
        _viol("sample_momentum:not-cotangent", f"sampled momentum has |J M^-1 p| = {cot:.3e}")
    return True


def flow_blocks(model, t):
    """Independent d pos/d mom and d mom/d mom of the h2 flow over time |t|."""
    dim = model.dim
    minv = np.linalg.inv(model.metric_dense)
    if model.kind == "gaussian_constrained":
        gen = np.zeros((2 * dim, 2 * dim))
        gen[:dim, dim:] = minv
        gen[dim:, :dim] = -np.identity(dim)
        ex = sla.expm(abs(t) * gen)
        return ex[:dim, dim:], ex[dim:, dim:]
    return abs(t) * minv, np.identity(dim)


def make_solver_monitor(name, solver):
    """Wrap a projection solver: exception discipline + return contract (residual and Lagrange form)."""
    from mici.errors import ConvergenceError

    def monitored(state, state_prev, time_step, system, **kwargs):
        model = MON["model"]
        obs = MON["obs"]
        pos_in = np.array(state.pos, dtype=float)
        mom_in = np.array(state.mom, dtype=float)
        finite_in = bool(np.all(np.isfinite(pos_in)) and np.all(np.isfinite(mom_in)))
        try:
            out = solver(state, state_prev, time_step, system, **kwargs)
        except ConvergenceError:
            obs.count("contract.solver_raise_convergence")
            raise
        except Exception as e:  # noqa: BLE001
            if finite_in:
                _viol(f"solver:foreign-exception:{type(e).__name__}:{name}",
                      f"{name} raised {type(e).__name__} ({e}) for finite inputs instead of ConvergenceError")
            raise
        obs.count("contract.solver_return")
        obs.count(f"contract.solver_return.{name}")
        if model is None:
            return out
        pos, mom = np.asarray(state.pos, dtype=float), np.asarray(state.mom, dtype=float)
        ctol = kwargs.get("constraint_tol", 1e-9)
        c = float(np.max(np.abs(model.constraint.c(pos))))
        obs.maxi(f"solver.residual_over_tol.{name}", c / ctol)
        if not c < ctol:
            _viol(f"solver:returned-unconverged:{name}", f"{name} returned with |c(q)| = {c:.3e} >= constraint_tol {ctol:.1e}")
        # Lagrange-multiplier form of the correction
        jprev = model.constraint.jac(np.asarray(state_prev.pos, dtype=float))
        a, b = flow_blocks(model, time_step)
        dq, dp = pos - pos_in, mom - mom_in
        lam, *_ = np.linalg.lstsq(a @ jprev.T, -dq, rcond=None)
        scale = 1 + float(np.max(np.abs(pos_in))) + float(np.max(np.abs(mom_in)))
        r1 = float(np.max(np.abs(dq + a @ jprev.T @ lam)))
        r2 = float(np.max(np.abs(dp + np.sign(time_step) * b @ jprev.T @ lam)))
        obs.maxi(f"solver.lagrange_residual.{name}", max(r1, r2) / scale)
        if r1 > 1e-8 * scale:
            _viol(f"solver:position-correction-not-lagrange-form:{name}", f"dq is not -dPhi_pos/dmom J_prev^T lambda (residual {r1:.3e})")
        if r2 > 1e-8 * scale:
            _viol(f"solver:momentum-correction-not-lagrange-form:{name}", f"dp is not -sign(t) dPhi_mom/dmom J_prev^T lambda (residual {r2:.3e})")
        if out is not state:
            _viol(f"solver:return-value:{name}", "solver did not return the state it was given")
        return out

    monitored.__name__ = f"monitored_{name}"
    return monitored


def attach() -> None:
    if _ATTACHED["done"]:
        return
    from mici import integrators, systems

    orig_step = integrators.Integrator.step
    MON["orig_project"] = systems.ConstrainedEuclideanMetricSystem.project_onto_cotangent_space
    orig_sm = systems.ConstrainedTractableFlowSystem.sample_momentum
    try:
        import icontract

        class ContractBroken(Exception):
            pass

        integrators.ConstrainedLeapfrogIntegrator.step = icontract.ensure(step_post, error=ContractBroken)(orig_step)
        systems.ConstrainedEuclideanMetricSystem.project_onto_cotangent_space = icontract.ensure(
            project_post, error=ContractBroken)(MON["orig_project"])
        systems.ConstrainedTractableFlowSystem.sample_momentum = icontract.ensure(
            sample_momentum_post, error=ContractBroken)(orig_sm)
        _ATTACHED["icontract"] = True
    except ImportError:
        def wrap(fn, cond):
            def w(*a, **k):
                res = fn(*a, **k)
                cond(*a, result=res, **k)
                return res
            return w

        integrators.ConstrainedLeapfrogIntegrator.step = wrap(orig_step, step_post)
        systems.ConstrainedEuclideanMetricSystem.project_onto_cotangent_space = wrap(MON["orig_project"], project_post)
        systems.ConstrainedTractableFlowSystem.sample_momentum = wrap(orig_sm, sample_momentum_post)
    _ATTACHED["done"] = True


def shard_setup(obs) -> None:
    from mv import common

    common.setup_paths()
    attach()
    obs.count("icontract_used" if _ATTACHED["icontract"] else "plain_wrappers_used")


def gen_cases(tier: str, seed: int):
    n = {"quick": 500, "thorough": 40000}[tier]
    nchain = {"quick": 24, "thorough": 1200}[tier]
    rng = np.random.default_rng([seed, 4])
    metrics = ("none", "identity", "scaled", "diag_array", "dense_array", "dense", "chol_lower", "eig", "block",
               "lowrank_plus", "lowrank_minus")
    for i in range(n + nchain):
        k = zoo.CONSTRAINED[i % 3]
        spec = zoo.random_sys_spec(rng, kinds=(k,), dim_range=(2, 6), metrics=metrics)
        spec["constr"] = zoo.CONSTRAINTS[i % len(zoo.CONSTRAINTS)]
        if spec["constr"] in ("hyperplanes2", "two_quadrics"):
            spec["dim"] = max(spec["dim"], 3)
        ispec = intgen.random_int_spec(rng, k, tight=bool(rng.integers(0, 3) == 0), kinds=("constrained",))
        if i % 4 == 3:  # starve the solver: it must raise, never return an unconverged state
            ispec["solver_kwargs"] = dict(ispec.get("solver_kwargs", {}), max_iters=int(rng.integers(1, 6)))
        case = {"kind": "steps" if i < n else "chain", "spec": spec, "ispec": ispec,
                "frac": float(np.exp(rng.uniform(np.log(0.003), np.log(2.5)))), "n": int(rng.integers(1, 11)),
                "seed": [seed, int(rng.integers(0, 2**31))]}
        if case["kind"] == "steps" and i % 5 == 4:
            # hostile: step sized without regard to the curvature of the manifold, larger momenta -- the free step lands far
            # from the manifold (outside the domain of the log constraints, at astronomically large residuals of the exp
            # constraints): the solver must answer with a convergence error, never with another exception or a bad state
            case["hostile"] = True
            case["frac"] = float(np.exp(rng.uniform(np.log(0.5), np.log(5.0))))
            case["mom_scale"] = float(rng.uniform(1.0, 4.0))
        if case["kind"] == "steps" and i % 10 == 7:
            # Gaussian-split systems advance their linear part exactly, so steps beyond a quarter period of the stiffest
            # metric direction (omega dt > pi / 2, where cos(omega dt) changes sign) are legitimate
            case["spec"] = dict(spec, sys="gaussian_constrained", constr=["hyperplane", "sphere", "hyperplanes2", "quadric"][(i // 10) % 4])
            if case["spec"]["constr"] == "hyperplanes2":
                case["spec"]["dim"] = max(case["spec"]["dim"], 3)
            case["ispec"] = dict(ispec, n_inner_step=1)
            case["ispec"].pop("solver_kwargs", None)  # default iteration budget
            case["quarter_period"] = float(rng.uniform(1.1, 1.9))  # omega_max * dt in units of pi / 2
        if case["kind"] == "chain":
            case["frac"] = float(np.exp(rng.uniform(np.log(0.05), np.log(0.9))))
            case["transition"] = ["static", "multinomial", "slice"][i % 3]
            case["adapt"] = [None, "var", "cov", None][(i // 3) % 4]
        yield case


def run_case(case, obs) -> None:
    from mici import solvers
    from mici.errors import IntegratorError

    spec, ispec = case["spec"], dict(case["ispec"])
    rng = np.random.default_rng([abs(int(s)) for s in case["seed"]])
    m = zoo.Model(spec)
    q, p = m.random_point(rng)
    p = p * case.get("mom_scale", 1.0)
    eps = case["frac"] / intgen.frequency(m, q, curvature=not case.get("hostile", False))
    if case.get("quarter_period"):
        eps = case["quarter_period"] * (np.pi / 2) * float(np.sqrt(np.min(np.linalg.eigvalsh(m.metric_dense))))
        obs.count("beyond_quarter_period_cases")
    ispec["step_size"] = eps
    integ = zoo.make_integrator(m, ispec)
    sname = {"newton": "solve_projection_onto_manifold_newton", "quasi_newton": "solve_projection_onto_manifold_quasi_newton",
             "line_search": "solve_projection_onto_manifold_newton_with_line_search"}[ispec["solver"]]
    integ.projection_solver = make_solver_monitor(ispec["solver"], getattr(solvers, sname))
    MON.update(obs=obs, model=m, ctx={"sys": spec["sys"], "constr": spec["constr"], "metric": spec.get("metric"),
                                      "int": ispec, "eps": round(eps, 5)})
    try:
        if case["kind"] == "steps":
            st = m.used_state(q, p, int(rng.choice([-1, 1])), ["fresh", "pickle", "copy", "deepcopy"][int(case["seed"][-1]) % 4])
            # start state contract (harness side): on manifold and cotangent
            c0, cot0 = _residuals(m, st.pos, st.mom)
            if c0 > 1e-10 or cot0 > 1e-9:
                obs.inconc("start-state-not-on-bundle")
                return
            try:
                for _ in range(case["n"]):
                    st = integ.step(st)
                obs.count("trajectories_completed")
            except IntegratorError as e:
                obs.count(f"loud_failure.{type(e).__name__}")
            # sampled momentum and explicit projection
            g = np.random.default_rng(int(rng.integers(0, 2**31)))
            mom = m.system.sample_momentum(m.state(q, p), g)
            _ = m.system.project_onto_cotangent_space(rng.standard_normal(m.dim), m.state(q, p))
            del mom
            # one state object moved over several points of the manifold (position assigned, momentum sometimes not):
            # every projection / momentum draw must belong to the cotangent space at the state's *current* position
            probe = m.state(q, p)
            for _k in range(4):
                how = int(rng.integers(0, 4))
                if how == 0:
                    _ = m.system.h(probe)
                elif how == 1:
                    _ = m.system.project_onto_cotangent_space(rng.standard_normal(m.dim), probe)
                q2, _p2 = m.random_point(rng)
                probe.pos = q2
                if rng.integers(0, 2):
                    _ = m.system.project_onto_cotangent_space(rng.standard_normal(m.dim), probe)
                    mom2 = m.system.sample_momentum(probe, g)
                else:
                    mom2 = m.system.sample_momentum(probe, g)
                    _ = m.system.project_onto_cotangent_space(rng.standard_normal(m.dim), probe)
                if rng.integers(0, 3) == 0:
                    probe.mom = mom2
                obs.count("moved_state_probes")
            # a metric adapter replaces system.metric at the end of a warm-up stage and refreshes the momenta of the chain
            # states it is given (real adapter code below): the refreshed momentum, and everything computed afterwards on
            # that same state object, must belong to the cotangent space of the NEW metric
            if rng.integers(0, 2):
                import mici

                class _T:  # the adapters only use transition.system
                    system = m.system

                ad = (mici.adapters.OnlineVarianceMetricAdapter() if rng.integers(0, 2) else mici.adapters.OnlineCovarianceMetricAdapter())
                ad_state = ad.initialize(probe, _T)
                for _k in range(int(rng.integers(3, 8))):
                    qa, pa = m.random_point(rng)
                    ad.update(ad_state, m.state(qa, pa), {}, _T)
                keep = MON["model"]
                MON["model"] = None  # the reference metric is only known after finalize
                try:
                    ad.finalize([ad_state], [probe], _T, [g])
                finally:
                    MON["model"] = keep
                m.metric_dense = np.array(m.system.metric.array, dtype=float)
                MON["ctx"] = dict(MON["ctx"], phase=f"after-{type(ad).__name__}.finalize")
                obs.count("adapter_metric_updates")
                _c, cot = _residuals(m, probe.pos, probe.mom)
                if cot > 1e-8 * (1 + float(np.max(np.abs(probe.mom)))):
                    _viol("adapter-refreshed-momentum:not-cotangent",
                          f"the momentum assigned by {type(ad).__name__}.finalize has |J M^-1 p| = {cot:.3e} for the new metric")
                _ = m.system.project_onto_cotangent_space(rng.standard_normal(m.dim), probe)
                _ = m.system.sample_momentum(probe, g)
                st = probe.copy()
                try:
                    for _ in range(min(case["n"], 3)):
                        st = integ.step(st)
                except IntegratorError as e:
                    obs.count(f"loud_failure.{type(e).__name__}")
        else:
            import mici

            g = np.random.default_rng(int(rng.integers(0, 2**31)))
            if case["transition"] == "static":
                sampler = mici.samplers.StaticMetropolisHMC(m.system, integ, g, n_step=int(rng.integers(1, 6)))
            elif case["transition"] == "multinomial":
                sampler = mici.samplers.DynamicMultinomialHMC(m.system, integ, g, max_tree_depth=4)
            else:
                sampler = mici.samplers.DynamicSliceHMC(m.system, integ, g, max_tree_depth=4)
            init = m.state(q, p)
            if case.get("adapt"):
                # warm-up with a real metric adapter: the main-stage states are judged against the adapted metric
                ad = mici.adapters.OnlineVarianceMetricAdapter() if case["adapt"] == "var" else mici.adapters.OnlineCovarianceMetricAdapter()
                MON["model"] = None  # contracts refer to the metric at construction; the chain states are judged below
                out = sampler.sample_chains(int(rng.integers(12, 30)), int(rng.integers(3, 9)), [init], adapters=[ad],
                                            display_progress=False, trace_funcs=[lambda s: {"pos": s.pos, "mom": s.mom}],
                                            stager=mici.stagers.WindowedWarmUpStager(n_init_slow_window_iter=4, n_init_fast_stage_iter=2, n_final_fast_stage_iter=2))
                m.metric_dense = np.array(m.system.metric.array, dtype=float)
                obs.count("chains_run_with_metric_adapter")
            else:
                out = sampler.sample_chains(0, int(rng.integers(3, 9)), [init], adapters=None, display_progress=False,
                                            trace_funcs=[lambda s: {"pos": s.pos, "mom": s.mom}])
            obs.count("chains_run")
            pos_tr, mom_tr = out.traces["pos"][0], out.traces["mom"][0]
            for r in range(pos_tr.shape[0]):
                c, cot = _residuals(m, pos_tr[r], mom_tr[r])
                obs.count("chain_states_checked")
                ctol = ispec.get("solver_kwargs", {}).get("constraint_tol", 1e-9)
                if not c < ctol or cot > 1e-8 * (1 + float(np.max(np.abs(mom_tr[r])))):
                    _viol("chain:state-off-bundle", f"chain state {r} has |c|={c:.3e}, |J M^-1 p|={cot:.3e}")
    finally:
        MON.update(model=None)
    fc = "small" if case["frac"] < 0.05 else ("mid" if case["frac"] < 0.5 else ("large" if case["frac"] < 1.2 else "huge"))
    obs.token(case["kind"] + ("-hostile" if case.get("hostile") else ""), spec["sys"], spec["constr"], spec.get("metric"), ispec["solver"], ispec["n_inner_step"], fc,
              case.get("transition", "-"))
    obs.sample({"kind": case["kind"], "sys": spec["sys"], "constr": spec["constr"], "metric": spec.get("metric"),
                "int": ispec, "eps": eps})
