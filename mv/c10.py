"""C10 - structured matrix expressions agree with dense linear algebra."""

from __future__ import annotations

import numpy as np

from mv import matgen

ID = "C10"
LEVEL = "exploration"
RULE = (
    "each case builds a random leaf matrix (every class / constructor option, sizes 1-6, nested blocks and low-rank "
    "parts) with an independent dense shadow and applies a random operator program (T, inv, sqrt, neg, scalar */, "
    "Matrix@Matrix both orders incl. rectangular, block and low-rank composition) of the stated depth; after every "
    "step the real object is compared with the shadow (shape, array, left/right products with vectors and matrices, "
    "diagonal, T, log_abs_det, inv, eigval/eigvec, sqrt) and class-retention rules are checked. distinct_nontrivial "
    "= distinct (leaf kind, operator-name sequence, size==1) triples with at least one operation applied."
)
ASSUMPTIONS = [
    "numpy/scipy dense linear algebra (inv, slogdet, eigvalsh) on shadows with condition number <= 1e6 is the reference",
    "relative tolerance 1e-7 * max(1, |reference|) on every compared quantity",
    "class retention judged only where it follows from operand class and operation alone (T, inv, scalar multiples, neg)",
]
REQUIRED = {"nodes_checked": 200, "compared": 3000}
BUDGET_S = {"quick": 120, "thorough": 1200}
TOL = 1e-7


def gen_cases(tier: str, seed: int):
    n = {"quick": 900, "thorough": 120000}[tier]
    maxdepth = {"quick": 4, "thorough": 8}[tier]
    kinds = list(matgen.ALL_LEAVES)
    yield {"kind": "implicit", "seed": [seed, 0]}
    for i in range(n):
        yield {"kind": "program", "seed": [seed, i + 1], "leaf": kinds[i % len(kinds)], "size": 1 + (i * 7) % 6,
               "depth": 1 + i % maxdepth}


def cmp(obs, what: str, got, ref, node, extra=None) -> bool:
    obs.count("compared")
    got = np.asarray(got, dtype=float)
    ref = np.asarray(ref, dtype=float)
    if got.shape != ref.shape:
        obs.violation(f"{what}:shape", f"{what}: shape {got.shape} != reference {ref.shape} for {node.desc}",
                      cls=type(node.m).__name__)
        return False
    if ref.size == 0:
        return True
    scale = max(1.0, float(np.max(np.abs(ref))))
    if not np.all(np.isfinite(got)):
        obs.violation(f"{what}:non-finite", f"{what} not finite for {type(node.m).__name__} {node.desc}",
                      cls=type(node.m).__name__)
        return False
    err = float(np.max(np.abs(got - ref))) / scale
    obs.maxi(f"relerr.{what}", err, node.desc)
    if err > TOL:
        obs.violation(f"{what}:mismatch:{type(node.m).__name__}",
                      f"{what} of {type(node.m).__name__} differs from dense reference by {err:.3e} (rel); expr={node.desc}",
                      cls=type(node.m).__name__, extra=extra)
        return False
    return True


def check_node(node, obs, rng) -> None:  # noqa: C901, PLR0912
    from mici import matrices as mm

    m, d = node.m, node.d
    obs.count("nodes_checked")
    obs.count(f"class.{type(m).__name__}")
    if tuple(m.shape) != tuple(d.shape):
        obs.violation("shape", f"shape {m.shape} != {d.shape} for {node.desc}")
        return
    rows, cols = d.shape
    cmp(obs, "array", m.array, d, node)
    v = rng.standard_normal(cols)
    bigv = rng.standard_normal((cols, 3))
    u = rng.standard_normal(rows)
    bigu = rng.standard_normal((2, rows))
    cmp(obs, "matvec", m @ v, d @ v, node)
    cmp(obs, "matmat", m @ bigv, d @ bigv, node)
    cmp(obs, "vecmat", u @ m, u @ d, node)
    cmp(obs, "matmat_left", bigu @ m, bigu @ d, node)
    cmp(obs, "diagonal", m.diagonal, d.diagonal(), node)
    t = m.T
    cmp(obs, "T.array", t.array, d.T, node)
    cmp(obs, "T.matvec", t @ u, d.T @ u, node)
    if m.T.T is not m and not np.array_equal(np.asarray(m.T.T.array), np.asarray(m.array)):
        obs.violation("T.T", f"double transpose changes the array for {node.desc}")
    if isinstance(m, mm.SquareMatrix):
        cmp(obs, "log_abs_det", m.log_abs_det, np.linalg.slogdet(d)[1], node)
    if isinstance(m, mm.InvertibleMatrix):
        dinv = np.linalg.inv(d)
        cmp(obs, "inv.array", m.inv.array, dinv, node)
        cmp(obs, "inv.matvec", m.inv @ v, dinv @ v, node)
        cmp(obs, "inv.vecmat", u @ m.inv, u @ dinv, node)
        cmp(obs, "inv.log_abs_det", m.inv.log_abs_det, -np.linalg.slogdet(d)[1], node)
        cmp(obs, "inv.T.array", m.inv.T.array, dinv.T, node)
        cmp(obs, "T.inv.array", m.T.inv.array, dinv.T, node)
    if isinstance(m, mm.SymmetricMatrix):
        obs.count("symmetric_checked")
        ds = (d + d.T) / 2
        if np.max(np.abs(d - d.T)) > TOL * max(1, np.max(np.abs(d))):
            obs.inconc("shadow-not-symmetric-for-symmetric-class")
        else:
            cmp(obs, "eigval", np.sort(np.asarray(m.eigval, dtype=float).ravel() * np.ones(rows)), np.linalg.eigvalsh(ds), node)
            ev = np.asarray(m.eigvec.array, dtype=float)
            lam = np.asarray(m.eigval, dtype=float) * np.ones(rows)
            cmp(obs, "eig-reconstruction", (ev * lam) @ ev.T, d, node)
            cmp(obs, "eigvec-orthogonal", ev @ ev.T, np.identity(rows), node)
        if m.T is not m:
            obs.violation(f"symmetric-T-not-self:{type(m).__name__}", f"{type(m).__name__}.T is not the object itself: {node.desc}")
    if isinstance(m, mm.PositiveDefiniteMatrix):
        obs.count("posdef_checked")
        lam = np.asarray(m.eigval, dtype=float) * np.ones(rows)
        if not np.all(lam > 0):
            obs.violation(f"posdef-eigval-nonpositive:{type(m).__name__}", f"eigval {lam} of {node.desc}")
        s = m.sqrt
        sa = np.asarray(s.array, dtype=float)
        cmp(obs, "sqrt@sqrt.T", sa @ sa.T, d, node)
        z = rng.standard_normal(sa.shape[1])
        cmp(obs, "sqrt.matvec", s @ z, sa @ z, node)


def retention(obs, op: str, before, after) -> None:
    """Class-retention rules that follow from operand class and operation alone."""
    from mici import matrices as mm

    b, a = before.m, after.m
    obs.count("retention_checked")
    pos_scalar = op in ("smul", "rsmul", "div") and after.desc[1] > 0
    if isinstance(b, mm.PositiveDefiniteMatrix) and (op in ("T", "inv") or pos_scalar) and not isinstance(a, mm.PositiveDefiniteMatrix):
        obs.violation(f"class-lost:posdef:{op}:{type(b).__name__}",
                      f"{op} of positive-definite {type(b).__name__} returned {type(a).__name__} (not positive definite class)")
    if isinstance(b, mm.SymmetricMatrix) and op in ("T", "inv", "neg", "smul", "rsmul", "div") and not isinstance(a, mm.SymmetricMatrix):
        obs.violation(f"class-lost:symmetric:{op}:{type(b).__name__}",
                      f"{op} of symmetric {type(b).__name__} returned {type(a).__name__} (not a symmetric class); expr={before.desc}")
    if isinstance(b, mm.InvertibleMatrix) and op in ("T", "inv", "neg", "smul", "rsmul", "div") and not isinstance(a, mm.InvertibleMatrix):
        obs.violation(f"class-lost:invertible:{op}:{type(b).__name__}",
                      f"{op} of invertible {type(b).__name__} returned {type(a).__name__}")


def implicit_case(obs, rng) -> None:
    """Identity / scaled identity with implicit size (constructor option `size=None`)."""
    from mici import matrices as mm

    for n in (1, 2, 5):
        v, bigv = rng.standard_normal(n), rng.standard_normal((n, 3))
        for s, m in ((1.0, mm.IdentityMatrix()), (2.5, mm.PositiveScaledIdentityMatrix(2.5)), (-0.7, mm.ScaledIdentityMatrix(-0.7))):
            node = matgen.Node(m, s * np.identity(n), ["implicit", type(m).__name__, n])
            obs.count("nodes_checked")
            cmp(obs, "implicit.matvec", m @ v, s * v, node)
            cmp(obs, "implicit.matmat", m @ bigv, s * bigv, node)
            cmp(obs, "implicit.vecmat", v @ m, s * v, node)
            cmp(obs, "implicit.inv.matvec", m.inv @ v, v / s, node)
            cmp(obs, "implicit.T.matvec", m.T @ v, s * v, node)
            cmp(obs, "implicit.scaled.matvec", (3.0 * m) @ v, 3 * s * v, node)
            cmp(obs, "implicit.neg.matvec", (-m) @ v, -s * v, node)
            cmp(obs, "implicit.eigval-broadcast", np.asarray(m.eigval) * np.ones(n), s * np.ones(n), node)
            cmp(obs, "implicit.diagonal-broadcast", np.asarray(m.diagonal) * np.ones(n), s * np.ones(n), node)
            cmp(obs, "implicit.eigvec.matvec", m.eigvec @ v, v, node)
            if s > 0:
                cmp(obs, "implicit.sqrt.matvec", m.sqrt @ v, np.sqrt(s) * v, node)
            if isinstance(m, mm.IdentityMatrix):
                cmp(obs, "implicit.log_abs_det", m.log_abs_det, 0.0, node)
            obs.token("implicit", type(m).__name__, n)


def run_case(case, obs) -> None:
    rng = np.random.default_rng([abs(int(s)) for s in case["seed"]])
    if case["kind"] == "implicit":
        implicit_case(obs, rng)
        return
    try:
        node = matgen.leaf(rng, case["size"], case["leaf"])
    except matgen.SkipCase:
        obs.inconc("leaf-skipped")
        return
    check_node(node, obs, rng)
    ops_done = []
    for _ in range(case["depth"]):
        ops = matgen.applicable_ops(node)
        op = str(rng.choice(ops))
        try:
            new = matgen.apply_op(rng, node, op)
        except matgen.SkipCase:
            obs.inconc("op-skipped")
            continue
        except NotImplementedError:
            raise
        if new.square and (not np.all(np.isfinite(new.d)) or np.linalg.cond(new.d) > 1e6):
            obs.inconc("shadow-ill-conditioned")
            break
        if op in ("T", "inv", "neg", "smul", "rsmul", "div"):
            retention(obs, op, node, new)
        obs.count(f"op.{op}")
        ops_done.append(op)
        node = new
        check_node(node, obs, rng)
    if ops_done:
        obs.token(case["leaf"], ops_done, case["size"] == 1)
    if len(obs.samples) < 4:
        obs.sample({"leaf": case["leaf"], "size": case["size"], "ops": ops_done, "final_class": type(node.m).__name__,
                    "expr": node.desc})
