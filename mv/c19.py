"""C19 - matrix objects behave as immutable values."""

from __future__ import annotations

import copy
import pickle

import numpy as np

from mv import matgen

ID = "C19"
LEVEL = "exploration"
RULE = (
    "kinds of case: (ops) a C10-style operator program in which the bytes of every caller-supplied array and the dense "
    "content of every operand are hashed before and after each operation and after touching every lazy attribute of "
    "the result; (order) two fresh equal-parameter instances whose lazy attributes (T, inv, sqrt, eigval, eigvec, "
    "factor, lu_and_piv, hash, array, diagonal, log_abs_det, capacitance, gradients) are requested in independent "
    "random orders, results compared, repeated access bitwise stable; (eq) equal-parameter instances ==/hash-equal "
    "before and after lazy attributes exist, copy/deepcopy/pickle equal the original; (nearmiss) same-class pairs "
    "differing in one option or entry: == must imply equal dense arrays; (write) writes through caller-held parameter "
    "arrays and through arrays returned by parameter accessors must raise or leave the operator unchanged. "
    "distinct_nontrivial = distinct (case kind, leaf kind, size==1, operator sequence / attribute order prefix)."
)
ASSUMPTIONS = [
    "content hashing = sha1 of the float64 bytes of the array / dense representation",
    "order-independence compared to 1e-12 relative (bit-level differences only reported), repeated access on one "
    "instance must be bitwise stable",
    "write test covers parameter arrays (constructor arguments and what parameter accessors return), not derived caches",
]
REQUIRED = {"operand_hash_checks": 500, "order_pairs": 100, "eq_checks": 100, "nearmiss_pairs": 100, "write_attempts": 100}
BUDGET_S = {"quick": 120, "thorough": 1200}

LAZY = ("T", "inv", "sqrt", "eigval", "eigvec", "factor", "lu_and_piv", "__hash__", "array", "diagonal", "log_abs_det",
        "capacitance_matrix", "grad_log_abs_det", "grad_quadratic_form_inv")


def gen_cases(tier: str, seed: int):
    n = {"quick": 200, "thorough": 20000}[tier]
    kinds = list(matgen.ALL_LEAVES)
    i = 0
    for kind in ("ops", "order", "eq", "nearmiss", "write"):
        for j in range(n * (4 if kind == "order" else 1)):
            i += 1
            lf = kinds[j % len(kinds)]
            if kind in ("order", "ops") and j % 6 == 5:  # low-rank updates carry the most cached state: sampled more often
                lf = ("lowrank_sq_plus", "lowrank_sq_minus", "lowrank_sym_plus", "lowrank_pd_plus", "lowrank_sym_minus", "lowrank_pd_minus")[(j // 6) % 6]
            yield {"kind": kind, "seed": [seed, i], "leaf": lf, "size": (1 + (j * 5) % 6) if lf == kinds[j % len(kinds)] else 4 + (j // 6) % 3,
                   "depth": 1 + j % 4}


def _rng(case, salt=0):
    return np.random.default_rng([abs(int(s)) for s in case["seed"]] + [salt])


def to_plain(x):
    from mici import matrices as mm

    if isinstance(x, mm.Matrix):
        return np.array(x.array, dtype=float)
    if isinstance(x, tuple):
        return tuple(to_plain(v) for v in x)
    if isinstance(x, (int, float, np.number, bool)):
        return np.float64(x)
    return np.array(x, dtype=float)


def plain_equal(a, b, rtol):
    if isinstance(a, tuple) != isinstance(b, tuple):
        return False
    if isinstance(a, tuple):
        return len(a) == len(b) and all(plain_equal(x, y, rtol) for x, y in zip(a, b))
    a, b = np.asarray(a), np.asarray(b)
    if a.shape != b.shape:
        return False
    if rtol == 0:
        return bool(np.array_equal(a, b, equal_nan=True))
    return bool(np.all(np.abs(a - b) <= rtol * max(1.0, float(np.max(np.abs(a), initial=0.0)))))


def differentiable(m) -> bool:
    from mici import matrices as mm

    if not isinstance(m, mm.DifferentiableMatrix):
        return False
    if isinstance(m, mm.PositiveDefiniteBlockDiagonalMatrix):
        return all(differentiable(b) for b in m.blocks)
    return True


def available_attrs(m) -> list[str]:
    from mici import matrices as mm

    out = []
    for a in LAZY:
        if a == "__hash__":
            out.append(a)
        elif a in ("grad_log_abs_det", "grad_quadratic_form_inv"):
            if differentiable(m):
                out.append(a)
        elif a == "sqrt":
            if isinstance(m, mm.PositiveDefiniteMatrix):
                out.append(a)
        elif a in ("eigval", "eigvec"):
            if isinstance(m, mm.SymmetricMatrix):
                out.append(a)
        elif a == "inv":
            if isinstance(m, mm.InvertibleMatrix):
                out.append(a)
        elif a == "log_abs_det":
            if isinstance(m, mm.SquareMatrix):
                out.append(a)
        elif hasattr(type(m), a):
            out.append(a)
    return out


def get_attr(m, a, v):
    if a == "__hash__":
        return hash(m)
    if a == "grad_quadratic_form_inv":
        return m.grad_quadratic_form_inv(v.copy())
    return getattr(m, a)


def snapshot(node) -> dict:
    """Content hashes of caller-supplied arrays and operand dense contents."""
    snap = {}
    for i, arr in enumerate(node.all_supplied()):
        snap[f"supplied{i}"] = matgen.content_hash(arr)
    for i, nd in enumerate(node.all_nodes()):
        snap[f"operand{i}:{type(nd.m).__name__}"] = matgen.content_hash(nd.m @ np.identity(nd.d.shape[1]))
    return snap


def case_ops(case, obs) -> None:
    rng = _rng(case)
    node = matgen.leaf(rng, case["size"], case["leaf"])
    ops_done = []
    for _ in range(case["depth"]):
        before = snapshot(node)
        op = str(rng.choice(matgen.applicable_ops(node)))
        try:
            new = matgen.apply_op(rng, node, op)
        except matgen.SkipCase:
            continue
        if new.square and np.linalg.cond(new.d) > 1e6:
            break
        v = rng.standard_normal(new.d.shape[0])
        for a in available_attrs(new.m):
            get_attr(new.m, a, v)
        # arrays the caller passes to products (with the matrix, its inverse and its square root) must come back untouched
        probes = [("matvec", new.m, rng.standard_normal(new.d.shape[1]), "r"), ("vecmat", new.m, rng.standard_normal(new.d.shape[0]), "l"),
                  ("matmat", new.m, rng.standard_normal((new.d.shape[1], 2)), "r")]
        if new.square and hasattr(type(new.m), "inv"):
            probes.append(("inv-matvec", new.m.inv, rng.standard_normal(new.d.shape[0]), "r"))
            probes.append(("inv-vecmat", new.m.inv, rng.standard_normal(new.d.shape[0]), "l"))
        if hasattr(type(new.m), "sqrt") and "sqrt" in available_attrs(new.m):
            probes.append(("sqrt-matvec", new.m.sqrt, rng.standard_normal(new.m.sqrt.shape[1]), "r"))
        for pname, mat, arr, side in probes:
            for writable in (True, False):
                x = arr.copy()
                x.flags.writeable = writable
                keep = x.copy()
                obs.count("product_operand_checks")
                try:
                    _ = (mat @ x) if side == "r" else (x @ mat)
                except ValueError as e:
                    if "read-only" in str(e):
                        obs.violation(f"product-writes-into-operand:{pname}:{type(mat).__name__}",
                                      f"{pname} with a read-only array raised {e!r}: the product writes into the caller's array; expr={new.desc}")
                        break
                    raise
                if not np.array_equal(x, keep):
                    obs.violation(f"product-operand-mutated:{pname}:{type(mat).__name__}",
                                  f"{pname} changed the array passed by the caller; expr={new.desc}")
                    break
        after = snapshot(node)
        obs.count("operand_hash_checks", len(before))
        for k, h in before.items():
            if after.get(k) != h:
                obs.violation(f"operand-mutated:{op}:{k.split(':')[-1] if ':' in k else 'supplied-array'}",
                              f"operation {op} (and attribute access on its result) changed {k} of operand expression {node.desc}")
        ops_done.append(op)
        node = new
    obs.token("ops", case["leaf"], case["size"] == 1, ops_done)
    obs.sample({"kind": "ops", "leaf": case["leaf"], "ops": ops_done})


DIRECT_PARAM_LEAVES = ("pos_diag", "diag", "tri_lower", "tri_upper", "inv_tri", "tri_fact_pd", "tri_fact_def", "dense_pd",
                       "dense_pd_factor", "dense_def", "dense_sq", "dense_sq_lu", "inv_lu", "dense_sym", "dense_sym_eig", "orth",
                       "scaled_orth", "eig_sym", "eig_pd", "identity", "pos_scaled", "scaled")


def case_order(case, obs) -> None:
    matgen.LAYOUT["mode"] = "CFS"[case["depth"] % 3]  # same layout for both instances: this case is about access order
    a = matgen.leaf(_rng(case), case["size"], case["leaf"])
    b = matgen.leaf(_rng(case), case["size"], case["leaf"])
    matgen.LAYOUT["mode"] = "mix"
    rng = _rng(case, 1)
    if case["depth"] % 2 == 0:  # also derived objects: inverse / transpose / scaled
        op = str(rng.choice(["inv", "T", "smul"]))
        if op == "smul":
            a.m, b.m = 1.7 * a.m, 1.7 * b.m
        elif op != "inv" or hasattr(type(a.m), "inv"):
            a.m, b.m = getattr(a.m, op), getattr(b.m, op)
    # scalar multiples / negations are formed at some point of the access history too (they may carry over whatever
    # factorisation is cached at that moment)
    attrs = available_attrs(a.m) + ["smul", "neg"]
    v = rng.standard_normal(a.m.shape[0])
    oa, ob = list(rng.permutation(attrs)), list(rng.permutation(attrs))
    if rng.integers(0, 3) == 0:
        # maximal contrast: one instance hands out its derived objects (T, inv, sqrt, multiples) only after every cached
        # quantity is in place, the other before any of them
        derived = [x for x in oa if x in ("T", "inv", "sqrt", "smul", "neg")]
        rest = [x for x in oa if x not in derived]
        oa, ob = rest + derived, derived[::-1] + rest[::-1]
    ra, rb = {}, {}
    made = ({}, {})

    def access(node, x, which):
        if x == "__hash__":
            return hash(node.m)
        if x in ("smul", "neg"):
            made[which][x] = 1.7 * node.m if x == "smul" else -node.m
            return to_plain(made[which][x])
        return to_plain(get_attr(node.m, x, v))

    for x in oa:
        ra[x] = access(a, x, 0)
    for x in ob:
        rb[x] = access(b, x, 1)
    obs.count("order_pairs")
    for x in attrs:
        obs.count("order_attr_compared")
        if x == "__hash__":
            if ra[x] != rb[x]:
                obs.violation(f"hash-depends-on-access-order:{type(a.m).__name__}", f"hash differs for equal instances; orders {oa} / {ob}")
            continue
        if not plain_equal(ra[x], rb[x], 1e-12):
            obs.violation(f"order-dependent:{x}:{type(a.m).__name__}",
                          f"{type(a.m).__name__}.{x} differs between access orders {oa} and {ob}; expr={a.desc}")
        elif not plain_equal(ra[x], rb[x], 0):
            obs.count("order_bit_level_differences")
        if x in ("smul", "neg"):
            continue
        again = to_plain(get_attr(a.m, x, v))
        if not plain_equal(again, ra[x], 0):
            obs.violation(f"unstable-repeat:{x}:{type(a.m).__name__}", f"repeated access of {x} not bitwise stable; expr={a.desc}")
    # second level: the derived objects (transpose, inverse, square root) handed out after different access histories
    # must themselves be the same values, whatever was cached on the parent when they were constructed
    from mici import matrices as mm

    for x in ("T", "inv", "sqrt", "smul", "neg"):
        if x not in attrs:
            continue
        sa, sb = (made[0][x], made[1][x]) if x in ("smul", "neg") else (getattr(a.m, x), getattr(b.m, x))
        if not isinstance(sa, mm.Matrix):
            continue
        sub_attrs = [y for y in available_attrs(sa) if y in ("array", "T", "inv", "log_abs_det", "diagonal", "sqrt", "eigval")]
        for y in (list(rng.permutation(sub_attrs)) if sub_attrs else []):
            obs.count("order_derived_attr_compared")
            va, vb = to_plain(get_attr(sa, y, v)), to_plain(get_attr(sb, y, v))
            if y == "eigval":
                # no ordering of the eigenvalues is documented (a negative multiple of a matrix whose eigendecomposition was
                # already cached lists them in descending order, a fresh one in ascending order): compared as multisets
                va, vb = np.sort(va), np.sort(vb)
            if not plain_equal(va, vb, 1e-9):
                obs.violation(f"order-dependent:{x}.{y}:{type(a.m).__name__}",
                              f"{type(a.m).__name__}.{x}.{y} differs between instances whose attributes were first accessed in orders "
                              f"{oa} and {ob}; expr={a.desc}")
    obs.token("order", case["leaf"], case["size"] == 1, oa[:3])


def case_eq(case, obs) -> None:
    # equal parameter values handed over in different memory layouts are still equal parameters
    la, lb = [("C", "F"), ("C", "S"), ("F", "S"), ("S", "S")][case["depth"] % 4]
    if case["leaf"] not in DIRECT_PARAM_LEAVES:
        lb = la  # equality of these classes is defined on arrays *computed* from the parameters (layout-dependent rounding)
    matgen.LAYOUT["mode"] = la
    a = matgen.leaf(_rng(case), case["size"], case["leaf"])
    matgen.LAYOUT["mode"] = lb
    b = matgen.leaf(_rng(case), case["size"], case["leaf"])
    matgen.LAYOUT["mode"] = "mix"
    obs.add_to_set("layout_pairs", [la, lb])
    rng = _rng(case, 2)
    cname = type(a.m).__name__

    def judge(when):
        obs.count("eq_checks")
        if not (a.m == b.m) or not (b.m == a.m):
            obs.violation(f"equal-params-not-equal:{cname}", f"{cname} instances with equal parameters compare unequal ({when}); expr={a.desc}")
        if a.m != b.m:
            obs.violation(f"equal-params-ne-true:{cname}", f"{cname}: != is True for equal-parameter instances ({when})")
        if hash(a.m) != hash(b.m):
            obs.violation(f"equal-params-hash-differs:{cname}", f"{cname} instances with equal parameters hash differently ({when})")

    judge("fresh")
    v = rng.standard_normal(a.m.shape[0])
    for x in rng.permutation(available_attrs(a.m)):
        get_attr(a.m, x, v)
    judge("after lazy attributes exist on one side")
    for how, fn in (("copy", copy.copy), ("deepcopy", copy.deepcopy), ("pickle", lambda o: pickle.loads(pickle.dumps(o)))):
        for src, label in ((a.m, "lazy-populated"), (b.m, "fresh")):
            obs.count("eq_checks")
            try:
                c = fn(src)
            except Exception as e:  # noqa: BLE001
                obs.violation(f"{how}-raises:{cname}", f"{how} of {label} {cname} raised {type(e).__name__}: {e}")
                continue
            if not (c == src) or hash(c) != hash(src):
                obs.violation(f"{how}-not-equal:{cname}", f"{how} of {label} {cname} does not equal/hash-equal its original")
            if not plain_equal(to_plain(c), to_plain(src), 0):
                obs.violation(f"{how}-array-differs:{cname}", f"{how} of {label} {cname} has a different dense array")
    obs.token("eq", case["leaf"], case["size"] == 1)


def near_miss(rng, case):
    """Return a second node of the same class differing in one option / entry."""
    for attempt in range(20):
        a = matgen.leaf(_rng(case), case["size"], case["leaf"])
        b = matgen.leaf(_rng(case, 100 + attempt) if rng.integers(0, 3) == 0 else _rng(case), case["size"], case["leaf"])
        how = "resampled"
        if type(a.m) is type(b.m) and plain_equal(a.d, b.d, 0):
            # same parameters: perturb one entry of one supplied array of b before construction is impossible now,
            # so rebuild b from a's description with a flipped option where the class has one
            b = flip_option(rng, a, case)
            how = "option-flipped"
            if b is None:
                continue
        if type(a.m) is type(b.m) and a.d.shape == b.d.shape:
            return a, b, how
    return None


def flip_option(rng, a, case):  # noqa: C901, PLR0911
    from mici import matrices as mm

    m = a.m
    try:
        if isinstance(m, mm.SquareLowRankUpdateMatrix):
            args = dict(sign=-m._sign)  # noqa: SLF001
            if isinstance(m, mm.PositiveDefiniteLowRankUpdateMatrix):
                nm = mm.PositiveDefiniteLowRankUpdateMatrix(m.factor_matrix, m.pos_def_matrix, m.inner_pos_def_matrix, **args)
            elif isinstance(m, mm.SymmetricLowRankUpdateMatrix):
                nm = mm.SymmetricLowRankUpdateMatrix(m.factor_matrix, m.symmetric_matrix, m.inner_symmetric_matrix, **args)
            else:
                nm = mm.SquareLowRankUpdateMatrix(m.left_factor_matrix, m.right_factor_matrix, m.square_matrix,
                                                  m.inner_square_matrix, **args)
            return matgen.Node(nm, np.array(nm @ np.identity(nm.shape[0])), ["flip-sign", a.desc])
        if type(m) is mm.TriangularFactoredDefiniteMatrix:
            nm = mm.TriangularFactoredDefiniteMatrix(m.factor, sign=-m.sign)
            return matgen.Node(nm, -a.d, ["flip-sign", a.desc])
        if type(m) is mm.DenseDefiniteMatrix:
            return None
        if isinstance(m, (mm.TriangularMatrix, mm.InverseTriangularMatrix)) and m.shape[0] > 1:
            arr = np.array(m.array if isinstance(m, mm.TriangularMatrix) else m._inverse_array)  # noqa: SLF001
            nm = type(m)(arr.T.copy(), lower=not m.lower, make_triangular=False)
            return matgen.Node(nm, np.array(nm @ np.identity(nm.shape[0])), ["flip-lower-transposed", a.desc])
        if isinstance(m, mm.ScaledIdentityMatrix) and type(m) is mm.ScaledIdentityMatrix:
            nm = mm.ScaledIdentityMatrix(-m.scalar, m.shape[0])
            return matgen.Node(nm, -a.d, ["flip-scalar-sign", a.desc])
        if isinstance(m, mm.ScaledOrthogonalMatrix):
            nm = mm.ScaledOrthogonalMatrix(-m._scalar, m._orth_array)  # noqa: SLF001
            return matgen.Node(nm, -a.d, ["flip-scalar-sign", a.desc])
        if isinstance(m, mm.SoftAbsRegularizedPositiveDefiniteMatrix):
            return None
        if isinstance(m, mm.InverseLUFactoredSquareMatrix):
            return None
        if isinstance(m, mm.ExplicitArrayMatrix) and m.shape[0] > 1 and type(m) in (mm.DenseSquareMatrix, mm.DenseRectangularMatrix):
            arr = np.array(m.array)
            arr[0, -1] += 0.25
            nm = type(m)(arr)
            return matgen.Node(nm, arr, ["entry-changed", a.desc])
        if isinstance(m, mm.DiagonalMatrix):
            d = np.array(m.diagonal)
            d[-1] *= 1.5
            nm = type(m)(d)
            return matgen.Node(nm, np.diag(d), ["entry-changed", a.desc])
        if isinstance(m, mm.SquareBlockDiagonalMatrix) and len(m.blocks) > 1:
            nm = type(m)(tuple(reversed(m.blocks)))
            return matgen.Node(nm, np.array(nm @ np.identity(nm.shape[0])), ["blocks-reversed", a.desc])
    except Exception:  # noqa: BLE001
        return None
    return None


def case_nearmiss(case, obs) -> None:
    rng = _rng(case, 3)
    res = near_miss(rng, case)
    if res is None:
        obs.inconc("no-near-miss-available")
        return
    a, b, how = res
    obs.count("nearmiss_pairs")
    obs.count(f"nearmiss.{how}")
    da = np.array(a.m @ np.identity(a.m.shape[1]))
    db = np.array(b.m @ np.identity(b.m.shape[1]))
    same = bool(np.allclose(da, db, rtol=1e-12, atol=1e-12))
    eq = bool(a.m == b.m)
    if eq and not same:
        obs.violation(f"equal-but-different-arrays:{type(a.m).__name__}",
                      f"{type(a.m).__name__} pair ({how}) compares equal but represents different operators "
                      f"(max diff {np.max(np.abs(da - db)):.3e}); a={a.desc} b={b.desc}")
    if eq and hash(a.m) != hash(b.m):
        obs.violation(f"equal-but-hash-differs:{type(a.m).__name__}", f"pair ({how}) is == but hashes differ")
    if not same:
        obs.count("nearmiss_truly_different")
    obs.token("nearmiss", case["leaf"], how, case["size"] == 1)


def operator_fingerprint(m):
    from mici import matrices as mm

    ident = np.identity(m.shape[1])
    fp = [np.array(m @ ident), np.array(m.array), np.array(ident @ m)]
    if isinstance(m, mm.InvertibleMatrix):
        fp.append(np.array(m.inv @ ident))
    if isinstance(m, mm.SquareMatrix):
        fp.append(np.array(m.log_abs_det))
    return fp


def param_accessors(m, desc=()):
    """(name, array) pairs: arrays returned by accessors of defining parameters."""
    from mici import matrices as mm

    out = []
    if isinstance(m, mm.ExplicitArrayMatrix):
        out.append(("array", m.array))
    if isinstance(m, mm.DiagonalMatrix):
        out.append(("diagonal", m.diagonal))
    if isinstance(m, mm.EigendecomposedSymmetricMatrix):
        out.append(("eigval", m.eigval))
        out.append(("eigvec.array", m.eigvec.array))
    if isinstance(m, mm._BaseTriangularFactoredDefiniteMatrix) and not isinstance(m, mm.DenseDefiniteMatrix):  # noqa: SLF001
        f = m.factor
        out.append(("factor", f.array if isinstance(f, mm.TriangularMatrix) else f._inverse_array))  # noqa: SLF001
    if isinstance(m, mm.DenseSquareMatrix) and desc and desc[0] == "dense_sq_lu":  # LU supplied by the caller
        out.append(("lu_and_piv[0]", m.lu_and_piv[0]))
        out.append(("lu_and_piv[1]", m.lu_and_piv[1]))
    if isinstance(m, mm.SquareLowRankUpdateMatrix):
        out.append(("left_factor_matrix.array", m.left_factor_matrix.array))
    return [(n, a) for n, a in out if isinstance(a, np.ndarray) and a.size > 0]


def case_write(case, obs) -> None:
    rng = _rng(case, 4)
    node = matgen.leaf(_rng(case), case["size"], case["leaf"])
    m = node.m
    v = rng.standard_normal(m.shape[0])
    if rng.integers(0, 2):
        for x in available_attrs(m):
            get_attr(m, x, v)
    before = operator_fingerprint(m)
    targets = [(f"supplied[{i}]", arr) for i, arr in enumerate(node.supplied)] + param_accessors(m, node.desc)
    for name, arr in targets:
        obs.count("write_attempts")
        try:
            arr[(0,) * arr.ndim] += 1
            wrote = True
        except (ValueError, TypeError):
            wrote = False
            obs.count("write_refused")
        if wrote:
            obs.count("write_accepted")
            try:
                after = operator_fingerprint(m)
                inv_changed = not all(np.array_equal(x, y, equal_nan=True) for x, y in zip(before, after))
            except Exception:  # noqa: BLE001
                inv_changed = True
            if inv_changed:
                obs.violation(f"parameter-writable:{type(m).__name__}:{name.split('[')[0]}",
                              f"in-place write through {name} of {type(m).__name__} was accepted and changed the represented "
                              f"operator; expr={node.desc}")
                arr[(0,) * arr.ndim] -= 1
    obs.token("write", case["leaf"], case["size"] == 1)


def run_case(case, obs) -> None:
    try:
        {"ops": case_ops, "order": case_order, "eq": case_eq, "nearmiss": case_nearmiss, "write": case_write}[case["kind"]](case, obs)
    except matgen.SkipCase:
        obs.inconc("case-skipped")
